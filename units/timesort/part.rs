// ---- units/timesort/part.rs ----
impl DltMessage {
//@ extract src/dlt/mod.rs DltMessage::timestamp_us
//@   spec
//@|    ensures r == self.timestamp_dms as int * 100, r <= 429_496_729_500,
//@ end
//@ extract src/dlt/mod.rs DltMessage::is_ctrl_request
//@   spec
//@|    ensures r == (match self.extended_header { Some(e) => (e.verb_mstp_mtin >> 1) & 0x07 == 3 && e.verb_mstp_mtin >> 4 == 1, None => false }),
//@ end
}
//@ extract src/utils/mod.rs struct SortedDltMessage
//@   sub R2 `crate::dlt::DltMessage` => `DltMessage`
//@ end
// std::cmp::Reverse (a tuple struct with a public field and the reversed Ord)
pub struct VxReverse<T>(pub T);

impl SortedDltMessage {
    // the order used for the output: calculated time, ties in original (index) order
    pub open spec fn spec_cmp(&self, other: &SortedDltMessage) -> std::cmp::Ordering {
        if self.calculated_time_us == other.calculated_time_us {
            if self.m.index < other.m.index { std::cmp::Ordering::Less } else if self.m.index == other.m.index { std::cmp::Ordering::Equal } else { std::cmp::Ordering::Greater }
        } else if self.calculated_time_us < other.calculated_time_us { std::cmp::Ordering::Less } else { std::cmp::Ordering::Greater }
    }
//@ extract src/utils/mod.rs <Ord for SortedDltMessage>::cmp
//@   spec
//@|    ensures r == self.spec_cmp(other), // O:sort.cmp (calculated time first, then the original index: ties keep their order)
//@ end
//@ extract src/utils/mod.rs <PartialOrd for SortedDltMessage>::partial_cmp
//@   spec
//@|    ensures r == Some(self.spec_cmp(other)), // O:sort.partial_cmp (the operators BinaryHeap uses agree with cmp)
//@ end
}

// R7/R12 models (as in unit filterstream): the inflow Receiver and the outflow closure
#[derive(Debug)]
pub struct VxRecvError;
pub trait VRecv: Sized {
    spec fn rem(&self) -> Seq<DltMessage>;
    fn recv(&mut self) -> (r: Result<DltMessage, VxRecvError>)
        ensures
            old(self).rem().len() == 0 ==> r is Err && final(self).rem() == old(self).rem(),
            old(self).rem().len() > 0 ==> r == Ok::<DltMessage, VxRecvError>(old(self).rem()[0]) && final(self).rem() == old(self).rem().skip(1);
}
pub trait VSink: Sized {
    spec fn log(&self) -> Seq<DltMessage>;
    fn send(&mut self, m: DltMessage) -> (r: Result<(), DltMessage>)
        ensures
            r is Ok ==> final(self).log() == old(self).log().push(m),
            r is Err ==> final(self).log() == old(self).log();
}
// BinaryHeap<Reverse<SortedDltMessage>> through a ghost view: the entries as a sequence in unspecified order (R11).
// BinaryHeap<Reverse<T>> is a min-heap w.r.t. T's order: peek/pop yield an entry that no other entry is Less than.
#[verifier::external_type_specification]
#[verifier::external_body]
#[verifier::accept_recursive_types(T)]
#[verifier::reject_recursive_types(A)]
pub struct ExBinaryHeap<T, A: Allocator>(BinaryHeap<T, A>);
pub type VxHeap = BinaryHeap<VxReverse<SortedDltMessage>>;
pub uninterp spec fn heap_view(h: &VxHeap) -> Seq<SortedDltMessage>;
pub uninterp spec fn vx_min_idx(v: Seq<SortedDltMessage>) -> int;   // position of the entry that peek/pop take
pub open spec fn is_min_at(v: Seq<SortedDltMessage>, i: int) -> bool {
    0 <= i < v.len() && forall|j: int| 0 <= j < v.len() ==> !(#[trigger] v[j].spec_cmp(&v[i]) is Less)
}
pub open spec fn msgs_of(v: Seq<SortedDltMessage>) -> Seq<DltMessage> { v.map_values(|e: SortedDltMessage| e.m) }
pub open spec fn heap_ms(h: &VxHeap) -> Multiset<DltMessage> { to_ms(msgs_of(heap_view(h))) }
pub open spec fn all_bounded(v: Seq<SortedDltMessage>, b: int) -> bool { forall|j: int| 0 <= j < v.len() ==> (#[trigger] v[j]).calculated_time_us <= b }
pub open spec fn T_B() -> int { 0x20_0000_0000_0000 }
#[verifier::external_body]
pub fn vx_heap_new(cap: usize) -> (r: VxHeap)
    ensures heap_view(&r) == Seq::<SortedDltMessage>::empty(),
{ unimplemented!() }
#[verifier::external_body]
pub fn vx_heap_push(h: &mut VxHeap, e: VxReverse<SortedDltMessage>)
    ensures heap_view(final(h)) == heap_view(old(h)).push(e.0),
{ unimplemented!() }
#[verifier::external_body]
pub fn vx_heap_peek(h: &VxHeap) -> (r: Option<&VxReverse<SortedDltMessage>>)
    ensures
        r is Some <==> heap_view(h).len() > 0,
        r is Some ==> is_min_at(heap_view(h), vx_min_idx(heap_view(h))) && r->Some_0.0 == heap_view(h)[vx_min_idx(heap_view(h))],
{ unimplemented!() }
#[verifier::external_body]
pub fn vx_heap_pop(h: &mut VxHeap) -> (r: Option<VxReverse<SortedDltMessage>>)
    ensures
        r is Some <==> heap_view(old(h)).len() > 0,
        r is Some ==> is_min_at(heap_view(old(h)), vx_min_idx(heap_view(old(h)))) && r->Some_0.0 == heap_view(old(h))[vx_min_idx(heap_view(old(h)))]
            && heap_view(final(h)) == heap_view(old(h)).remove(vx_min_idx(heap_view(old(h)))),
        r is None ==> heap_view(final(h)) == heap_view(old(h)),
{ unimplemented!() }
// R11: the two closures of buffer_sort_messages are cut (lifecycle start-time cache over evmap/BTreeMap; sliding-window maximum
// of buffering delays over HashMap/VecDeque/max_by_key) and replaced by stubs:
//  - the lifecycle start time is a function of the lifecycle id for the duration of the call (that is what the cache
//    `lc_map` provides: "cached with the first value"), at most 2^53 us;
//  - the release threshold returned by update_max_buffering_delays is arbitrary, but never below the configured minimum
//    (the closure returns `min_buffer_delay_us + <window maximum>` or the unchanged previous value) and at most 2^62 us.
// The permutation clause holds for every such value; the ordering clause uses "never below the minimum".
pub uninterp spec fn lc_start(lc: u32) -> u64;
#[verifier::external_body]
pub fn vx_get_lc_start_time(lc: u32) -> (r: u64) ensures r == lc_start(lc), r <= 0x20_0000_0000_0000 { unimplemented!() }
#[verifier::external_body]
pub fn vx_update_max_buffering_delays(min_buffer_delay_us: u64, cur: u64, ecu: &DltChar4, lc: &u32, reception_us: u64, delay: u64) -> (r: u64)
    ensures r <= 0x4000_0000_0000_0000, cur >= min_buffer_delay_us ==> r >= min_buffer_delay_us,
{ unimplemented!() }

// The result expression of the cut closure update_max_buffering_delays (its tail `if recalc_max_buffer_time_us { .. } else { .. }`),
// extracted as a statement range: the new threshold is `min_buffer_delay_us + <window maximum>` or the unchanged previous value.
// The window maximum (a block over HashMap::iter().max_by_key(..)) is replaced by a stub returning an arbitrary value of at most
// 2^61 us (R11; it is 1000 s or one of the observed buffering delays, which are at most a reception time).
#[verifier::external_body]
pub fn vx_window_max() -> (r: u64) ensures r <= 0x2000_0000_0000_0000 { unimplemented!() }
//@ extract src/utils/mod.rs region `>>if recalc_buffering_delay {` .. `$end` in fn buffer_sort_messages
//@   sig pub fn threshold_result(recalc_max_buffer_time_us: bool, min_buffer_delay_us: u64, max_buffer_time_us: u64) -> (r: u64)
//@   sub R11 `{ let x = max_buffering_delays __ }` => `vx_window_max()`
//@   spec
//@|    requires min_buffer_delay_us <= 0x2000_0000_0000_0000, min_buffer_delay_us <= max_buffer_time_us <= 0x4000_0000_0000_0000,
//@|    ensures
//@|        r >= min_buffer_delay_us, // O:sort.threshold.min (the release threshold is never below the configured minimum delay)
//@|        r <= 0x4000_0000_0000_0000,
//@ end

pub open spec fn to_ms(s: Seq<DltMessage>) -> Multiset<DltMessage> { s.to_multiset() }
pub proof fn lemma_ms_len0(m: Multiset<DltMessage>)
    requires m.len() == 0,
    ensures m == Multiset::<DltMessage>::empty(),
{
    assert forall|x: DltMessage| m.count(x) == 0 by {
        if m.count(x) > 0 {
            // removing an element that is present decreases the length: impossible for length 0
            assert(m.remove(x).len() == m.len() - 1);
        }
    }
    assert(m =~= Multiset::<DltMessage>::empty());
}
pub proof fn lemma_ms_empty_seq()
    ensures to_ms(Seq::<DltMessage>::empty()) == Multiset::<DltMessage>::empty(),
{
    Seq::<DltMessage>::empty().to_multiset_ensures();
    lemma_ms_len0(Seq::<DltMessage>::empty().to_multiset());
}
pub proof fn lemma_view_push(v: Seq<SortedDltMessage>, e: SortedDltMessage)
    ensures to_ms(msgs_of(v.push(e))) == to_ms(msgs_of(v)).insert(e.m),
{
    assert(msgs_of(v.push(e)) =~= msgs_of(v).push(e.m));
    msgs_of(v).to_multiset_ensures();
}
pub proof fn lemma_view_remove(v: Seq<SortedDltMessage>, i: int)
    requires 0 <= i < v.len(),
    ensures to_ms(msgs_of(v.remove(i))) == to_ms(msgs_of(v)).remove(v[i].m), to_ms(msgs_of(v)).count(v[i].m) > 0,
{
    assert(msgs_of(v.remove(i)) =~= msgs_of(v).remove(i));
    msgs_of(v).to_multiset_ensures();
    assert(msgs_of(v)[i] == v[i].m);
    assert(msgs_of(v).contains(v[i].m));
}

// ---- the ordering clause ----
// the time a message is sorted by: lifecycle start + timestamp, capped at the reception time; the reception time for control requests
pub open spec fn calc_of(m: DltMessage) -> int {
    let is_req = match m.extended_header { Some(e) => (e.verb_mstp_mtin >> 1) & 0x07 == 3 && e.verb_mstp_mtin >> 4 == 1, None => false };
    let c = if is_req { m.reception_time_us as int } else { lc_start(m.lifecycle) as int + m.timestamp_dms as int * 100 };
    if c > m.reception_time_us { m.reception_time_us as int } else { c }
}
// the hypothesis of the ordering clause: reception times never decrease and no calculated time lies more than min_delay before
// the reception time
pub open spec fn ordered_input(ms: Seq<DltMessage>, min_delay: int) -> bool {
    &&& forall|i: int, j: int| 0 <= i < j < ms.len() ==> (#[trigger] ms[i]).reception_time_us <= (#[trigger] ms[j]).reception_time_us
    &&& forall|i: int| 0 <= i < ms.len() ==> calc_of(#[trigger] ms[i]) + min_delay >= ms[i].reception_time_us
}
pub open spec fn keys_ok(v: Seq<SortedDltMessage>) -> bool { forall|i: int| 0 <= i < v.len() ==> (#[trigger] v[i]).calculated_time_us == calc_of(v[i].m) }
// sorted by (calculated time, index): no later element is Less than an earlier one
pub open spec fn sorted_keys(v: Seq<SortedDltMessage>) -> bool { forall|i: int, j: int| 0 <= i < j < v.len() ==> !(#[trigger] v[j].spec_cmp(&#[trigger] v[i]) is Less) }
// nothing in `hp` is Less than anything in `out`
pub open spec fn all_le(out: Seq<SortedDltMessage>, hp: Seq<SortedDltMessage>) -> bool {
    forall|i: int, j: int| 0 <= i < out.len() && 0 <= j < hp.len() ==> !(#[trigger] hp[j].spec_cmp(&#[trigger] out[i]) is Less)
}
pub open spec fn all_released_before(out: Seq<SortedDltMessage>, min_delay: int, t: int) -> bool {
    forall|i: int| 0 <= i < out.len() ==> (#[trigger] out[i]).calculated_time_us + min_delay < t
}

// releasing a minimum of the buffer keeps "delivered is sorted" and "nothing buffered is Less than anything delivered"
pub proof fn lemma_release(out: Seq<SortedDltMessage>, hv: Seq<SortedDltMessage>, ix: int)
    requires is_min_at(hv, ix), sorted_keys(out), all_le(out, hv),
    ensures sorted_keys(out.push(hv[ix])), all_le(out.push(hv[ix]), hv.remove(ix)),
{
    let e = hv[ix];
    let o2 = out.push(e);
    let h2 = hv.remove(ix);
    assert forall|i: int, j: int| 0 <= i < j < o2.len() implies !(#[trigger] o2[j].spec_cmp(&#[trigger] o2[i]) is Less) by {
        assert(o2[i] == out[i]);
        if j < out.len() { assert(o2[j] == out[j]); } else { assert(o2[j] == hv[ix]); }
    }
    assert forall|i: int, j: int| 0 <= i < o2.len() && 0 <= j < h2.len() implies !(#[trigger] h2[j].spec_cmp(&#[trigger] o2[i]) is Less) by {
        let jj = if j < ix { j } else { j + 1 };
        assert(h2[j] == hv[jj]);
        if i < out.len() { assert(o2[i] == out[i]); } else { assert(o2[i] == hv[ix]); }
    }
}

//@ extract src/utils/mod.rs fn buffer_sort_messages
//@   sub R12 `<M, S, F: Fn(DltMessage) -> SendMsgFnReturnType>` => `<I: VRecv, S: VSink>`
//@   sub R12 `inflow: Receiver<DltMessage>` => `mut inflow: I`
//@   sub R12 `outflow: &F` => `outflow: &mut S`
//@   sub R12 `lcs_r: &evmap::ReadHandle<crate::lifecycle::LifecycleId, crate::lifecycle::LifecycleItem, M, S>,` => ``
//@   sub R12 `Result<(), SendError<DltMessage>>` => `Result<(), DltMessage>`
//@   sub R12 `where S: std::hash::BuildHasher + Clone, M: 'static + Clone,` => ``
//@   cut R11 `let mut lc_map =`
//@   cut R11 `let mut get_lc_start_time =`
//@   cut R11 `struct MaxBufferDelayEntry`
//@   cut R11 `let mut max_buffering_delays =`
//@   cut R11 `let mut update_max_buffering_delays =`
//@   sub R11 `std::collections::binary_heap::BinaryHeap::with_capacity(1024 * 1024)` => `vx_heap_new(1024 * 1024)`
//@   sub R11 `get_lc_start_time(m.lifecycle)` => `vx_get_lc_start_time(m.lifecycle)`
//@   sub R11 `update_max_buffering_delays(` => `vx_update_max_buffering_delays(min_buffer_delay_us,`
//@   sub R11 `buffer.push(std::cmp::Reverse(sm))` => `vx_heap_push(&mut buffer, VxReverse(sm))`
//@   sub R11 `buffer.peek()` => `vx_heap_peek(&buffer)` *
//@   sub R11 `buffer.pop()` => `vx_heap_pop(&mut buffer)` *
//@   sub R13 `for m in inflow {` => `loop { let m = match inflow.recv() { Ok(vx_m) => vx_m, Err(_) => break };`
//@   sub R12 `outflow(sm2.0.m)?` => `outflow.send(sm2.0.m)?`
//@   sub R12 `outflow(sm.0.m)?` => `outflow.send(sm.0.m)?`
//@   spec
//@|    requires
//@|        min_buffer_delay_us <= 0x2000_0000_0000_0000,
//@|        forall|i: int| 0 <= i < inflow.rem().len() ==> (#[trigger] inflow.rem()[i]).reception_time_us <= 0x20_0000_0000_0000,
//@|    ensures
//@|        // every received message is delivered exactly once and unaltered: the output is a permutation of the input
//@|        r is Ok ==> to_ms(final(outflow).log()) == to_ms(old(outflow).log()).add(to_ms(inflow.rem())), // O:sort.permutation
//@|        // under the bounded-delay hypothesis the delivered messages are ordered by (calculated time, index)
//@|        r is Ok && ordered_input(inflow.rem(), min_buffer_delay_us as int) ==> exists|out: Seq<SortedDltMessage>|
//@|            final(outflow).log() == old(outflow).log() + #[trigger] msgs_of(out) && keys_ok(out) && sorted_keys(out), // O:sort.ordered
//@   hint before `^loop`
//@|    let ghost ms0 = inflow.rem();
//@|    let ghost log0 = outflow.log();
//@|    let ghost hyp = ordered_input(ms0, min_buffer_delay_us as int);
//@|    let ghost md = min_buffer_delay_us as int;
//@|    let ghost mut k: int = 0;
//@|    let ghost mut out: Seq<SortedDltMessage> = Seq::empty();
//@|    let ghost mut tl: int = 0;
//@|    proof {
//@|        assert(ms0.subrange(0, 0) =~= Seq::<DltMessage>::empty());
//@|        lemma_ms_empty_seq();
//@|        assert(msgs_of(heap_view(&buffer)) =~= Seq::<DltMessage>::empty());
//@|        assert(to_ms(outflow.log()).add(heap_ms(&buffer)) =~= to_ms(log0).add(to_ms(ms0.subrange(0, 0))));
//@|        assert(outflow.log() =~= log0 + msgs_of(out));
//@|    }
//@   loop inner `inflow.recv()`
//@|    invariant
//@|        0 <= k <= ms0.len(), log0 == old(outflow).log(), md == min_buffer_delay_us, hyp == ordered_input(ms0, md),
//@|        inflow.rem() == ms0.skip(k),
//@|        forall|i: int| 0 <= i < ms0.len() ==> (#[trigger] ms0[i]).reception_time_us <= T_B(),
//@|        min_buffer_delay_us <= max_buffer_time_us <= 0x4000_0000_0000_0000, all_bounded(heap_view(&buffer), T_B()),
//@|        to_ms(outflow.log()).add(heap_ms(&buffer)) == to_ms(log0).add(to_ms(ms0.subrange(0, k))), // O:sort.inv.conservation (delivered + buffered = received so far)
//@|        outflow.log() == log0 + msgs_of(out), keys_ok(out), keys_ok(heap_view(&buffer)), // O:sort.inv.keys
//@|        k == 0 ==> out.len() == 0,
//@|        k > 0 ==> tl == ms0[k - 1].reception_time_us,
//@|        hyp ==> sorted_keys(out) && all_le(out, heap_view(&buffer)) && all_released_before(out, md, tl), // O:sort.inv.order
//@|    ensures
//@|        k == ms0.len(),
//@|        to_ms(outflow.log()).add(heap_ms(&buffer)) == to_ms(log0).add(to_ms(ms0.subrange(0, k))),
//@|        outflow.log() == log0 + msgs_of(out), keys_ok(out), keys_ok(heap_view(&buffer)),
//@|        hyp ==> sorted_keys(out) && all_le(out, heap_view(&buffer)),
//@|    decreases ms0.len() - k,
//@   hint before `let msg_reception_time_us = m.reception_time_us;`
//@|    proof {
//@|        assert(m == ms0[k]);
//@|        assert(ms0.skip(k).skip(1) =~= ms0.skip(k + 1));
//@|        assert(ms0.subrange(0, k + 1) =~= ms0.subrange(0, k).push(ms0[k]));
//@|        ms0.subrange(0, k).to_multiset_ensures();
//@|        assert(to_ms(ms0.subrange(0, k + 1)) == to_ms(ms0.subrange(0, k)).insert(ms0[k]));
//@|        // reception times never decrease: everything released so far was released before this message's reception time, too
//@|        if hyp { assert(all_released_before(out, md, ms0[k].reception_time_us as int)); }
//@|        tl = ms0[k].reception_time_us as int;
//@|        k = k + 1;
//@|    }
//@|    let ghost hv0 = heap_view(&buffer);
//@|    let ghost m0 = m;
//@   hint before `vx_heap_push(&mut buffer`
//@|    let ghost e_new = sm;
//@   hint after `vx_heap_push(&mut buffer`
//@|    proof {
//@|        let hv1 = heap_view(&buffer);
//@|        assert(hv1 == hv0.push(e_new));
//@|        lemma_view_push(hv0, e_new);
//@|        assert(e_new.m == m0 && e_new.calculated_time_us == calc_of(m0)); // O:sort.key (the sort key is the calculated time of the property)
//@|        assert(to_ms(outflow.log()).add(heap_ms(&buffer)) =~= to_ms(outflow.log()).add(to_ms(msgs_of(hv0))).insert(m0));
//@|        assert(to_ms(outflow.log()).add(heap_ms(&buffer)) =~= to_ms(log0).add(to_ms(ms0.subrange(0, k))));
//@|        assert(keys_ok(hv1)) by { assert forall|j: int| 0 <= j < hv1.len() implies (#[trigger] hv1[j]).calculated_time_us == calc_of(hv1[j].m) by { if j < hv0.len() { assert(hv1[j] == hv0[j]); } } }
//@|        assert(all_bounded(hv1, T_B())) by { assert forall|j: int| 0 <= j < hv1.len() implies (#[trigger] hv1[j]).calculated_time_us <= T_B() by { if j < hv0.len() { assert(hv1[j] == hv0[j]); } } }
//@|        if hyp {
//@|            // the new message's calculated time is later than that of everything released so far
//@|            assert(calc_of(ms0[k - 1]) + md >= ms0[k - 1].reception_time_us);
//@|            assert(all_le(out, hv1)) by {
//@|                assert forall|i: int, j: int| 0 <= i < out.len() && 0 <= j < hv1.len() implies !(#[trigger] hv1[j].spec_cmp(&#[trigger] out[i]) is Less) by {
//@|                    if j < hv0.len() { assert(hv1[j] == hv0[j]); } else { assert(out[i].calculated_time_us + md < tl); }
//@|                }
//@|            }
//@|        }
//@|    }
//@   loop inner `vx_heap_peek(&buffer)`
//@|    invariant
//@|        0 < k <= ms0.len(), log0 == old(outflow).log(), msg_reception_time_us <= T_B(), md == min_buffer_delay_us, hyp == ordered_input(ms0, md),
//@|        min_buffer_delay_us <= max_buffer_time_us <= 0x4000_0000_0000_0000, all_bounded(heap_view(&buffer), T_B()),
//@|        to_ms(outflow.log()).add(heap_ms(&buffer)) == to_ms(log0).add(to_ms(ms0.subrange(0, k))), // O:sort.inv.release
//@|        outflow.log() == log0 + msgs_of(out), keys_ok(out), keys_ok(heap_view(&buffer)), // O:sort.inv.release.keys
//@|        tl == msg_reception_time_us,
//@|        hyp ==> sorted_keys(out) && all_le(out, heap_view(&buffer)) && all_released_before(out, md, tl), // O:sort.inv.release.order
//@|    decreases heap_view(&buffer).len(),
//@   hint before `let sm2 = vx_heap_pop(&mut buffer).unwrap();`
//@|    let ghost lg = outflow.log();
//@|    let ghost hv = heap_view(&buffer);
//@|    let ghost ix = vx_min_idx(hv);
//@|    let ghost e = hv[ix];
//@|    proof { lg.to_multiset_ensures(); lemma_view_remove(hv, ix); }
//@   hint after `outflow.send(sm2.0.m)?;`
//@|    proof {
//@|        let hv2 = heap_view(&buffer);
//@|        assert(hv2 == hv.remove(ix));
//@|        assert(to_ms(outflow.log()).add(heap_ms(&buffer)) =~= to_ms(lg).add(to_ms(msgs_of(hv))));
//@|        assert(msgs_of(out.push(e)) =~= msgs_of(out).push(e.m));
//@|        assert(outflow.log() =~= log0 + msgs_of(out.push(e)));
//@|        assert(keys_ok(out.push(e))) by { assert forall|i: int| 0 <= i < out.push(e).len() implies (#[trigger] out.push(e)[i]).calculated_time_us == calc_of(out.push(e)[i].m) by { if i < out.len() { assert(out.push(e)[i] == out[i]); } } }
//@|        assert(keys_ok(hv2)) by { assert forall|j: int| 0 <= j < hv2.len() implies (#[trigger] hv2[j]).calculated_time_us == calc_of(hv2[j].m) by { if j < ix { assert(hv2[j] == hv[j]); } else { assert(hv2[j] == hv[j + 1]); } } }
//@|        assert(all_bounded(hv2, T_B())) by { assert forall|j: int| 0 <= j < hv2.len() implies (#[trigger] hv2[j]).calculated_time_us <= T_B() by { if j < ix { assert(hv2[j] == hv[j]); } else { assert(hv2[j] == hv[j + 1]); } } }
//@|        if hyp {
//@|            lemma_release(out, hv, ix);
//@|            // released only when older than the threshold, which is never below the configured minimum
//@|            assert(e.calculated_time_us + md < tl); // O:sort.release_not_early
//@|            assert(all_released_before(out.push(e), md, tl)) by { assert forall|i: int| 0 <= i < out.push(e).len() implies (#[trigger] out.push(e)[i]).calculated_time_us + md < tl by { if i < out.len() { assert(out.push(e)[i] == out[i]); } } }
//@|        }
//@|        out = out.push(e);
//@|    }
//@   loop inner 2 `vx_heap_pop(&mut buffer)`
//@|    invariant
//@|        log0 == old(outflow).log(), hvg == heap_view(&buffer),
//@|        to_ms(outflow.log()).add(heap_ms(&buffer)) == to_ms(log0).add(to_ms(ms0)), // O:sort.inv.flush
//@|        outflow.log() == log0 + msgs_of(out), keys_ok(out), keys_ok(heap_view(&buffer)), // O:sort.inv.flush.keys
//@|        hyp ==> sorted_keys(out) && all_le(out, heap_view(&buffer)), // O:sort.inv.flush.order
//@|    ensures
//@|        heap_view(&buffer).len() == 0,
//@|        to_ms(outflow.log()).add(heap_ms(&buffer)) == to_ms(log0).add(to_ms(ms0)),
//@|        outflow.log() == log0 + msgs_of(out), keys_ok(out),
//@|        hyp ==> sorted_keys(out),
//@|    decreases heap_view(&buffer).len(),
//@   hint before `while let Some(sm) = vx_heap_pop(&mut buffer)`
//@|    proof { assert(ms0.subrange(0, k) =~= ms0); }
//@|    let ghost mut hvg = heap_view(&buffer);
//@   hint before `outflow.send(sm.0.m)?;`
//@|    let ghost lg3 = outflow.log();
//@|    let ghost ix = vx_min_idx(hvg);
//@|    let ghost e = hvg[ix];
//@|    proof { lg3.to_multiset_ensures(); lemma_view_remove(hvg, ix); }
//@   hint after `outflow.send(sm.0.m)?;`
//@|    proof {
//@|        let hv2 = heap_view(&buffer);
//@|        assert(hv2 == hvg.remove(ix));
//@|        assert(to_ms(outflow.log()).add(heap_ms(&buffer)) =~= to_ms(lg3).add(to_ms(msgs_of(hvg))));
//@|        assert(msgs_of(out.push(e)) =~= msgs_of(out).push(e.m));
//@|        assert(outflow.log() =~= log0 + msgs_of(out.push(e)));
//@|        assert(keys_ok(out.push(e))) by { assert forall|i: int| 0 <= i < out.push(e).len() implies (#[trigger] out.push(e)[i]).calculated_time_us == calc_of(out.push(e)[i].m) by { if i < out.len() { assert(out.push(e)[i] == out[i]); } } }
//@|        assert(keys_ok(hv2)) by { assert forall|j: int| 0 <= j < hv2.len() implies (#[trigger] hv2[j]).calculated_time_us == calc_of(hv2[j].m) by { if j < ix { assert(hv2[j] == hvg[j]); } else { assert(hv2[j] == hvg[j + 1]); } } }
//@|        if hyp { lemma_release(out, hvg, ix); }
//@|        out = out.push(e);
//@|        hvg = hv2;
//@|    }
//@   hint before `^Ok(())`
//@|    proof {
//@|        assert(msgs_of(heap_view(&buffer)) =~= Seq::<DltMessage>::empty());
//@|        lemma_ms_empty_seq();
//@|        assert(to_ms(outflow.log()) =~= to_ms(log0).add(to_ms(ms0)));
//@|    }
//@ end
// ---- end of units/timesort/part.rs ----
