// ---- units/timesort/part.rs ----
impl DltMessage {
//@ extract src/dlt/mod.rs DltMessage::timestamp_us
//@   spec
//@|    ensures r == self.timestamp_dms as int * 100, r <= 429_496_729_500,
//@ end
//@ extract src/dlt/mod.rs DltMessage::is_ctrl_request
//@   spec
//@|    ensures r == (match self.extended_header { Some(e) => (e.verb_mstp_mtin >> 1) & 0x07 == 3 && e.verb_mstp_mtin >> 4 == 1, None => false }),
//@ end
}
//@ extract src/utils/mod.rs struct SortedDltMessage
//@   sub R2 `crate::dlt::DltMessage` => `DltMessage`
//@ end
// std::cmp::Reverse (a tuple struct with a public field and the reversed Ord)
pub struct VxReverse<T>(pub T);

impl SortedDltMessage {
    // the order used for the output: calculated time, ties in original (index) order
    pub open spec fn spec_cmp(&self, other: &SortedDltMessage) -> std::cmp::Ordering {
        if self.calculated_time_us == other.calculated_time_us {
            if self.m.index < other.m.index { std::cmp::Ordering::Less } else if self.m.index == other.m.index { std::cmp::Ordering::Equal } else { std::cmp::Ordering::Greater }
        } else if self.calculated_time_us < other.calculated_time_us { std::cmp::Ordering::Less } else { std::cmp::Ordering::Greater }
    }
//@ extract src/utils/mod.rs <Ord for SortedDltMessage>::cmp
//@   spec
//@|    ensures r == self.spec_cmp(other), // O:sort.cmp (calculated time first, then the original index: ties keep their order)
//@ end
}

// R7/R12 models (as in unit filterstream): the inflow Receiver and the outflow closure
#[derive(Debug)]
pub struct VxRecvError;
pub trait VRecv: Sized {
    spec fn rem(&self) -> Seq<DltMessage>;
    fn recv(&mut self) -> (r: Result<DltMessage, VxRecvError>)
        ensures
            old(self).rem().len() == 0 ==> r is Err && final(self).rem() == old(self).rem(),
            old(self).rem().len() > 0 ==> r == Ok::<DltMessage, VxRecvError>(old(self).rem()[0]) && final(self).rem() == old(self).rem().skip(1);
}
pub trait VSink: Sized {
    spec fn log(&self) -> Seq<DltMessage>;
    fn send(&mut self, m: DltMessage) -> (r: Result<(), DltMessage>)
        ensures
            r is Ok ==> final(self).log() == old(self).log().push(m),
            r is Err ==> final(self).log() == old(self).log();
}
// BinaryHeap<Reverse<SortedDltMessage>> with a multiset view (only "what is in it" matters for the permutation clause)
#[verifier::external_type_specification]
#[verifier::external_body]
#[verifier::accept_recursive_types(T)]
#[verifier::reject_recursive_types(A)]
pub struct ExBinaryHeap<T, A: Allocator>(BinaryHeap<T, A>);
pub type VxHeap = BinaryHeap<VxReverse<SortedDltMessage>>;
pub uninterp spec fn heap_ms(h: &VxHeap) -> Multiset<DltMessage>;
pub uninterp spec fn heap_bounded(h: &VxHeap, b: int) -> bool;   // every entry's calculated time is at most b
pub open spec fn T_B() -> int { 0x20_0000_0000_0000 }
#[verifier::external_body]
pub fn vx_heap_new(cap: usize) -> (r: VxHeap)
    ensures heap_ms(&r) == Multiset::<DltMessage>::empty(), heap_bounded(&r, T_B()),
{ unimplemented!() }
#[verifier::external_body]
pub fn vx_heap_push(h: &mut VxHeap, e: VxReverse<SortedDltMessage>)
    ensures heap_ms(final(h)) == heap_ms(old(h)).insert(e.0.m),
        heap_bounded(old(h), T_B()) && e.0.calculated_time_us <= T_B() ==> heap_bounded(final(h), T_B()),
{ unimplemented!() }
#[verifier::external_body]
pub fn vx_heap_peek(h: &VxHeap) -> (r: Option<&VxReverse<SortedDltMessage>>)
    ensures r is Some <==> heap_ms(h).len() > 0, r is Some ==> heap_ms(h).count(r->Some_0.0.m) > 0,
        r is Some && heap_bounded(h, T_B()) ==> r->Some_0.0.calculated_time_us <= T_B(),
{ unimplemented!() }
#[verifier::external_body]
pub fn vx_heap_pop(h: &mut VxHeap) -> (r: Option<VxReverse<SortedDltMessage>>)
    ensures
        r is Some <==> heap_ms(old(h)).len() > 0,
        r is Some ==> heap_ms(old(h)).count(r->Some_0.0.m) > 0 && heap_ms(final(h)) == heap_ms(old(h)).remove(r->Some_0.0.m),
        r is None ==> heap_ms(final(h)) == heap_ms(old(h)),
        heap_bounded(old(h), T_B()) ==> heap_bounded(final(h), T_B()),
{ unimplemented!() }
// R11: the two closures of buffer_sort_messages (lifecycle start-time cache over evmap/BTreeMap; sliding-window maximum of
// buffering delays over HashMap/VecDeque) only decide WHEN a message is released. They are replaced by stubs returning an
// arbitrary bounded value: the permutation clause holds for every such value.
#[verifier::external_body]
pub fn vx_get_lc_start_time(lc: u32) -> (r: u64) ensures r <= 0x20_0000_0000_0000 { unimplemented!() }
#[verifier::external_body]
pub fn vx_update_max_buffering_delays(cur: u64, ecu: &DltChar4, lc: &u32, reception_us: u64, delay: u64) -> (r: u64) ensures r <= 0x4000_0000_0000_0000 { unimplemented!() }

pub open spec fn to_ms(s: Seq<DltMessage>) -> Multiset<DltMessage> { s.to_multiset() }
pub proof fn lemma_ms_len0(m: Multiset<DltMessage>)
    requires m.len() == 0,
    ensures m == Multiset::<DltMessage>::empty(),
{
    assert forall|x: DltMessage| m.count(x) == 0 by {
        if m.count(x) > 0 {
            // removing an element that is present decreases the length: impossible for length 0
            assert(m.remove(x).len() == m.len() - 1);
        }
    }
    assert(m =~= Multiset::<DltMessage>::empty());
}
pub proof fn lemma_ms_empty_seq()
    ensures to_ms(Seq::<DltMessage>::empty()) == Multiset::<DltMessage>::empty(),
{
    Seq::<DltMessage>::empty().to_multiset_ensures();
    lemma_ms_len0(Seq::<DltMessage>::empty().to_multiset());
}

//@ extract src/utils/mod.rs fn buffer_sort_messages
//@   sub R12 `<M, S, F: Fn(DltMessage) -> SendMsgFnReturnType>` => `<I: VRecv, S: VSink>`
//@   sub R12 `inflow: Receiver<DltMessage>` => `mut inflow: I`
//@   sub R12 `outflow: &F` => `outflow: &mut S`
//@   sub R12 `lcs_r: &evmap::ReadHandle<crate::lifecycle::LifecycleId, crate::lifecycle::LifecycleItem, M, S>,` => ``
//@   sub R12 `Result<(), SendError<DltMessage>>` => `Result<(), DltMessage>`
//@   sub R12 `where S: std::hash::BuildHasher + Clone, M: 'static + Clone,` => ``
//@   cut R11 `let mut lc_map =`
//@   cut R11 `let mut get_lc_start_time =`
//@   cut R11 `struct MaxBufferDelayEntry`
//@   cut R11 `let mut max_buffering_delays =`
//@   cut R11 `let mut update_max_buffering_delays =`
//@   sub R11 `std::collections::binary_heap::BinaryHeap::with_capacity(1024 * 1024)` => `vx_heap_new(1024 * 1024)`
//@   sub R11 `get_lc_start_time(m.lifecycle)` => `vx_get_lc_start_time(m.lifecycle)`
//@   sub R11 `update_max_buffering_delays(` => `vx_update_max_buffering_delays(`
//@   sub R11 `buffer.push(std::cmp::Reverse(sm))` => `vx_heap_push(&mut buffer, VxReverse(sm))`
//@   sub R11 `buffer.peek()` => `vx_heap_peek(&buffer)`
//@   sub R11 `buffer.pop()` => `vx_heap_pop(&mut buffer)` x2
//@   sub R13 `for m in inflow {` => `loop { let m = match inflow.recv() { Ok(vx_m) => vx_m, Err(_) => break };`
//@   sub R12 `outflow(sm2.0.m)?` => `outflow.send(sm2.0.m)?`
//@   sub R12 `outflow(sm.0.m)?` => `outflow.send(sm.0.m)?`
//@   spec
//@|    requires
//@|        min_buffer_delay_us <= 0x4000_0000_0000_0000,
//@|        forall|i: int| 0 <= i < inflow.rem().len() ==> (#[trigger] inflow.rem()[i]).reception_time_us <= 0x20_0000_0000_0000,
//@|    ensures
//@|        // every received message is delivered exactly once and unaltered: the output is a permutation of the input
//@|        r is Ok ==> to_ms(final(outflow).log()) == to_ms(old(outflow).log()).add(to_ms(inflow.rem())), // O:sort.permutation
//@   hint before `^loop`
//@|    let ghost ms0 = inflow.rem();
//@|    let ghost log0 = outflow.log();
//@|    let ghost mut k: int = 0;
//@|    proof { assert(ms0.subrange(0, 0) =~= Seq::<DltMessage>::empty()); lemma_ms_empty_seq(); assert(to_ms(outflow.log()).add(heap_ms(&buffer)) =~= to_ms(log0).add(to_ms(ms0.subrange(0, 0)))); }
//@   loop 1
//@|    invariant
//@|        0 <= k <= ms0.len(), log0 == old(outflow).log(),
//@|        inflow.rem() == ms0.skip(k),
//@|        forall|i: int| 0 <= i < ms0.len() ==> (#[trigger] ms0[i]).reception_time_us <= T_B(),
//@|        max_buffer_time_us <= 0x4000_0000_0000_0000, heap_bounded(&buffer, T_B()),
//@|        to_ms(outflow.log()).add(heap_ms(&buffer)) == to_ms(log0).add(to_ms(ms0.subrange(0, k))), // O:sort.inv.conservation (delivered + buffered = received so far)
//@|    ensures
//@|        k == ms0.len(), heap_bounded(&buffer, T_B()),
//@|        to_ms(outflow.log()).add(heap_ms(&buffer)) == to_ms(log0).add(to_ms(ms0.subrange(0, k))),
//@|    decreases ms0.len() - k,
//@   hint before `let msg_reception_time_us = m.reception_time_us;`
//@|    proof {
//@|        assert(m == ms0[k]);
//@|        assert(ms0.skip(k).skip(1) =~= ms0.skip(k + 1));
//@|        assert(ms0.subrange(0, k + 1) =~= ms0.subrange(0, k).push(ms0[k]));
//@|        ms0.subrange(0, k).to_multiset_ensures();
//@|        assert(to_ms(ms0.subrange(0, k + 1)) == to_ms(ms0.subrange(0, k)).insert(ms0[k]));
//@|        k = k + 1;
//@|    }
//@|    let ghost hp0 = heap_ms(&buffer);
//@|    let ghost m0 = m;
//@   hint before `while let Some(sm) = vx_heap_peek(&buffer)`
//@|    proof {
//@|        assert(heap_ms(&buffer) == hp0.insert(m0));
//@|        assert(to_ms(outflow.log()).add(hp0.insert(m0)) =~= to_ms(outflow.log()).add(hp0).insert(m0));
//@|        assert(to_ms(outflow.log()).add(heap_ms(&buffer)) =~= to_ms(log0).add(to_ms(ms0.subrange(0, k))));
//@|    }
//@   loop 2
//@|    invariant
//@|        0 <= k <= ms0.len(), log0 == old(outflow).log(), msg_reception_time_us <= T_B(),
//@|        max_buffer_time_us <= 0x4000_0000_0000_0000, heap_bounded(&buffer, T_B()),
//@|        to_ms(outflow.log()).add(heap_ms(&buffer)) == to_ms(log0).add(to_ms(ms0.subrange(0, k))), // O:sort.inv.release
//@|    decreases heap_ms(&buffer).len(),
//@   hint before `let sm2 = vx_heap_pop(&mut buffer).unwrap();`
//@|    let ghost lg = outflow.log();
//@|    let ghost hp = heap_ms(&buffer);
//@|    proof { lg.to_multiset_ensures(); }
//@   hint after `outflow.send(sm2.0.m)?;`
//@|    proof { assert(to_ms(outflow.log()).add(heap_ms(&buffer)) =~= to_ms(lg).add(hp)); }
//@   loop 3
//@|    invariant
//@|        log0 == old(outflow).log(),
//@|        to_ms(outflow.log()).add(heap_ms(&buffer)) == to_ms(log0).add(to_ms(ms0)), // O:sort.inv.flush
//@|    ensures
//@|        heap_ms(&buffer).len() == 0,
//@|        to_ms(outflow.log()).add(heap_ms(&buffer)) == to_ms(log0).add(to_ms(ms0)),
//@|    decreases heap_ms(&buffer).len(),
//@   hint before `while let Some(sm) = vx_heap_pop(&mut buffer)`
//@|    proof { assert(ms0.subrange(0, k) =~= ms0); }
//@   hint before `outflow.send(sm.0.m)?;`
//@|    let ghost lg3 = outflow.log();
//@|    proof { lg3.to_multiset_ensures(); }
//@   hint after `outflow.send(sm.0.m)?;`
//@|    proof { assert(to_ms(outflow.log()).add(heap_ms(&buffer)) =~= to_ms(log0).add(to_ms(ms0))); }
//@   hint before `^Ok(())`
//@|    proof { lemma_ms_len0(heap_ms(&buffer)); assert(to_ms(outflow.log()) =~= to_ms(log0).add(to_ms(ms0))); }
//@ end
// ---- end of units/timesort/part.rs ----
