//@ unit timesort
// C10 (permutation clause): buffer_sort_messages delivers exactly the received messages (as a multiset), unaltered.
#![feature(allocator_api)]
#![allow(unused_imports, dead_code, unused_variables, unused_mut, non_upper_case_globals)]
use vstd::prelude::*;
use vstd::multiset::Multiset;
use std::collections::BinaryHeap;
use std::alloc::Allocator;
verus! {
global size_of usize == 8;

//@ include prelude/std_specs.rs
//@ include units/dltcore/part.rs
//@ include units/timesort/part.rs
//@ include units/timesort/window.rs

fn main() {}
} // verus!
