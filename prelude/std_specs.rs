// ---- prelude/std_specs.rs: TRUSTED specifications of std items (DESIGN.md section 5) ----
// Everything in this file is an assumption; each item is listed in the evidence under trusted_base.

#[verifier::external_type_specification]
#[verifier::external_body]
pub struct ExIoError(std::io::Error);

#[verifier::external_type_specification]
pub struct ExSeekFrom(std::io::SeekFrom);

// requires false: a call site of panic!/unreachable! (rule R4) is an obligation "never reached"
#[verifier::external_body]
pub fn vx_unreached<T>() -> (r: T)
    requires false,
{
    unreachable!()
}

#[verifier::external_body]
pub fn vx_min_usize(a: usize, b: usize) -> (r: usize)
    ensures r == if a <= b { a } else { b },
{
    std::cmp::min(a, b)
}

#[verifier::external_body]
pub fn vx_min_u64(a: u64, b: u64) -> (r: u64)
    ensures r == if a <= b { a } else { b },
{
    std::cmp::min(a, b)
}
pub assume_specification [i64::unsigned_abs] (x: i64) -> (r: u64)
    ensures r as int == (if x < 0 { -(x as int) } else { x as int });
pub assume_specification [usize::saturating_add_signed] (x: usize, d: isize) -> (r: usize)
    ensures r as int == (if x + d < 0 { 0 } else if x + d > usize::MAX { usize::MAX as int } else { x + d });
// rule R6: the text of error values / labels is dropped
#[verifier::external_body]
pub fn vx_opaque_string() -> (r: String) { String::new() }
#[verifier::external_body]
pub fn vx_io_error() -> (r: std::io::Error) { std::io::Error::new(std::io::ErrorKind::Other, "error") }

// core::cmp::Ordering::reverse (Less <-> Greater)
pub open spec fn vx_spec_ord_reverse(o: std::cmp::Ordering) -> std::cmp::Ordering {
    match o { std::cmp::Ordering::Less => std::cmp::Ordering::Greater, std::cmp::Ordering::Equal => std::cmp::Ordering::Equal, std::cmp::Ordering::Greater => std::cmp::Ordering::Less }
}
pub assume_specification [std::cmp::Ordering::reverse] (o: std::cmp::Ordering) -> (r: std::cmp::Ordering)
    ensures r == vx_spec_ord_reverse(o);
// i64::saturating_mul / saturating_add: the mathematical result clamped to the i64 range
pub open spec fn vx_clamp_i64(x: int) -> int { if x < i64::MIN { i64::MIN as int } else if x > i64::MAX { i64::MAX as int } else { x } }
pub assume_specification [i64::saturating_mul] (a: i64, b: i64) -> (r: i64)
    ensures r as int == vx_clamp_i64(a as int * b as int);
pub assume_specification [i64::saturating_add] (a: i64, b: i64) -> (r: i64)
    ensures r as int == vx_clamp_i64(a as int + b as int);
// ---- end of prelude/std_specs.rs ----
