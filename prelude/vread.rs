// ---- prelude/vread.rs: ASSUMED contract of an underlying std::io::Read (rule R7) ----
// The source is a fixed finite byte sequence; rest() is the part not yet handed out.
pub trait VRead: Sized {
    spec fn rest(&self) -> Seq<u8>;
    // the whole byte sequence of the source (rest() is a suffix of it; which suffix is tracked by the user of the reader)
    spec fn total(&self) -> Seq<u8>;
    // "this reader never reports an I/O error" (true for Cursor/slices; for files it is the absence of I/O faults)
    spec fn never_fails(&self) -> bool;
    fn read(&mut self, buf: &mut [u8]) -> (r: std::io::Result<usize>)
        ensures
            final(buf)@.len() == old(buf)@.len(),
            r is Ok ==> {
                let n = r->Ok_0 as int;
                &&& n <= old(buf)@.len()
                &&& n <= old(self).rest().len()
                &&& final(buf)@.subrange(0, n) == old(self).rest().subrange(0, n)
                &&& final(buf)@.subrange(n, old(buf)@.len() as int) == old(buf)@.subrange(n, old(buf)@.len() as int)
                &&& final(self).rest() == old(self).rest().skip(n)
                &&& (n == 0 ==> old(buf)@.len() == 0 || old(self).rest().len() == 0)
            },
            r is Err ==> final(self).rest() == old(self).rest(),
            final(self).total() == old(self).total(),
            final(self).never_fails() == old(self).never_fails(),
            old(self).never_fails() ==> r is Ok;
}
// ---- end of prelude/vread.rs ----
