// replay crate: generated and hand-written #[test]s that run counterexamples against the real adlt crate
