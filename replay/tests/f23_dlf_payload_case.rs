// Finding F23 (C11, obligation dlf.wf of unit filterjson): a DLF (dlt-viewer filter file) filter with a literal payload text and
// ignoreCase_Payload NOT set is compiled to a case-insensitive matcher all the same: Filter::from_quick_xml_reader sets
// payload_as_regex (the case-insensitive literal) whenever a payload text is given, and Filter::matches prefers it.
// The same abstract filter loaded from JSON matches case-sensitively: the front-ends disagree.
use adlt::dlt::{DltChar4, DltExtendedHeader, DltMessage, DltStandardHeader};
use adlt::filter::{functions::filters_from_dlf, Filter};

fn msg_with_text(text: &str) -> DltMessage {
    // a verbose message with one string argument (type info 0x0200 STRG | SCOD ascii, little endian)
    let mut payload: Vec<u8> = vec![0x00, 0x02, 0x00, 0x00];
    payload.extend_from_slice(&((text.len() + 1) as u16).to_le_bytes());
    payload.extend_from_slice(text.as_bytes());
    payload.push(0);
    DltMessage {
        index: 0, reception_time_us: 0, ecu: DltChar4::from_buf(b"ECU1"), timestamp_dms: 0,
        standard_header: DltStandardHeader { htyp: 0x21, mcnt: 0, len: 0 },
        extended_header: Some(DltExtendedHeader { verb_mstp_mtin: 0x41, noar: 1, apid: DltChar4::from_buf(b"APID"), ctid: DltChar4::from_buf(b"CTID") }),
        payload, payload_text: None, lifecycle: 0,
    }
}

#[test]
fn f23_dlf_literal_payload_without_ignore_case_is_case_sensitive_like_json() {
    let dlf = r#"<?xml version="1.0" encoding="UTF-8"?><dltfilter><filter><type>0</type><enablefilter>1</enablefilter><payloadtext>fOo</payloadtext><enablepayloadtext>1</enablepayloadtext><ignoreCase_Payload>0</ignoreCase_Payload></filter></dltfilter>"#;
    let fs = filters_from_dlf(std::io::BufReader::new(dlf.as_bytes())).unwrap();
    assert_eq!(fs.len(), 1);
    let f_dlf = &fs[0];
    let f_json = Filter::from_json(r#"{"type":0,"payload":"fOo","ignoreCasePayload":false}"#).unwrap();
    for text in ["a fOo b", "a foo b", "a FOO b", "bar"] {
        let m = msg_with_text(text);
        assert_eq!(f_dlf.matches(&m), f_json.matches(&m), "payload text {:?}: DLF says {}, JSON says {}", text, f_dlf.matches(&m), f_json.matches(&m));
    }
    assert!(f_dlf.matches(&msg_with_text("a fOo b")));
    assert!(!f_dlf.matches(&msg_with_text("a foo b")), "a case-sensitive literal must not match text that differs in case");
}
