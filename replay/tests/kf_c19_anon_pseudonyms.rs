// Known finding (C19, obligation anon.ecu.injective of unit anonmap): the pseudonyms are "E001".."E999" and then the fallback
// "E99A" for every further ECU (format!("E{:03}", n) has 5 characters from n = 1000 on and DltChar4::from_str fails), so from the
// 1000th distinct ECU id on, distinct ids get the same pseudonym. The same scheme is used for APIDs per ECU and CTIDs per APID.
// `#[ignore]`d: it documents an open finding; run with `cargo test --offline --test kf_c19_anon_pseudonyms -- --ignored`.
use adlt::dlt::{DltChar4, DltMessage, DltStandardHeader};
use adlt::plugins::anonymize::AnonymizePlugin;
use adlt::plugins::plugin::Plugin;
use std::collections::HashMap;

fn pseudonyms(n: u32) -> HashMap<[u8; 4], Vec<u32>> {
    let mut p = AnonymizePlugin::new("anon");
    let mut seen: HashMap<[u8; 4], Vec<u32>> = HashMap::new();
    for i in 0..n {
        // distinct printable 4-byte ECU ids
        let id = [b'A' + (i / 17576 % 26) as u8, b'A' + (i / 676 % 26) as u8, b'A' + (i / 26 % 26) as u8, b'A' + (i % 26) as u8];
        let mut m = DltMessage {
            index: i, reception_time_us: 1_000_000 + i as u64, ecu: DltChar4::from_buf(&id), timestamp_dms: 0,
            standard_header: DltStandardHeader { htyp: 0x21, mcnt: 0, len: 4 }, extended_header: None, payload: vec![], payload_text: None, lifecycle: 1,
        };
        assert!(p.process_msg(&mut m));
        let mut b = [0u8; 4];
        b.copy_from_slice(&m.ecu.as_buf()[0..4]);
        seen.entry(b).or_default().push(i);
    }
    seen
}

#[test]
fn up_to_999_ecus_get_distinct_pseudonyms() {
    let seen = pseudonyms(999);
    assert_eq!(seen.len(), 999);
}

#[test]
#[ignore]
fn kf_more_than_999_ecus_share_a_pseudonym() {
    let seen = pseudonyms(1002);
    let clash: Vec<_> = seen.iter().filter(|(_k, v)| v.len() > 1).collect();
    assert!(clash.is_empty(), "distinct ECU ids with the same pseudonym: {:?}", clash.iter().map(|(k, v)| (String::from_utf8_lossy(&k[..]).to_string(), v.len())).collect::<Vec<_>>());
}
