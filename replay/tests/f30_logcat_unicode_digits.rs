// Finding F30 (C03): a logcat threadtime line whose date uses a non-ASCII decimal digit (the regex class \d is Unicode-aware):
// "0٠-00 00:00:00.00" is 18 bytes long, passes the length test of parse_threadtime_str, and parse_mmdd_str then slices `mmdd[0..2]`
// through the two-byte digit: a panic ('byte index 2 is not a char boundary') on a valid UTF-8 file.
use adlt::utils::{get_new_namespace, LogCat2DltMsgIterator};
use std::io::Cursor;

#[test]
fn f30_threadtime_with_a_non_ascii_digit() {
    let text = "0\u{0660}-00 00:00:00.00  123  456 I tag: msg\n01-02 03:04:05.678  123  456 I tag: msg2\n";
    let rdr = std::io::BufReader::new(Cursor::new(text.as_bytes().to_vec()));
    let it = LogCat2DltMsgIterator::new(0, rdr, get_new_namespace(), None, None, None);
    let n = it.count();
    assert!(n <= 4);
}
