// Finding F4b (C03): AnonymizePlugin::process_msg panicked (Option::unwrap on None) on a verbose control response whose
// first argument is shorter than 4 bytes (same pattern as F4 in Lifecycle::update).
use adlt::dlt::{DltChar4, DltExtendedHeader, DltMessage, DltStandardHeader};
use adlt::plugins::anonymize::AnonymizePlugin;
use adlt::plugins::plugin::Plugin;

#[test]
fn f4b_anonymize_verbose_control_response_with_one_byte_argument() {
    let mut m = DltMessage {
        index: 0,
        reception_time_us: 10_100_000,
        ecu: DltChar4::from_buf(b"ECU1"),
        timestamp_dms: 11_000,
        standard_header: DltStandardHeader { htyp: 0x31, mcnt: 0, len: 0 },
        extended_header: Some(DltExtendedHeader { verb_mstp_mtin: 0x27, noar: 1, apid: DltChar4::from_buf(b"APID"), ctid: DltChar4::from_buf(b"CTID") }),
        payload: vec![0x41, 0, 0, 0, 5],
        payload_text: None,
        lifecycle: 0,
    };
    let mut p = AnonymizePlugin::new("anon");
    assert!(p.process_msg(&mut m));
}
