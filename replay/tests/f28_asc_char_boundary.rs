// Finding F28 (C03): a CAN-ASC line whose announced data length makes the end of the data slice fall inside a multi-byte character:
// Asc2DltMsgIterator::next cut `&line[loc_d_start..loc_d_end]` at byte offsets computed from the announced length - a panic
// ("byte index .. is not a char boundary") on a valid UTF-8 file.
use adlt::utils::{get_new_namespace, Asc2DltMsgIterator};
use std::io::Cursor;

fn run(text: &str) -> usize {
    let rdr = std::io::BufReader::new(Cursor::new(text.as_bytes().to_vec()));
    let it = Asc2DltMsgIterator::new(0, rdr, get_new_namespace(), None, None);
    it.count()
}

#[test]
fn f28_asc_data_slice_ends_inside_a_multibyte_char() {
    // data length 2 -> the slice is 5 bytes long; the 5th byte is the first byte of 'é'
    let n = run("date Tue Apr 12 08:55:37.985 am 2022\n   0.000000 1  123             Rx   d 2 11 2é 33 44 55\n");
    assert!(n <= 1);
}

#[test]
fn f28_asc_canfd_data_slice_ends_inside_a_multibyte_char() {
    let n = run("date Tue Apr 12 08:55:37.985 am 2022\n   0.000000 CANFD   1 Rx        123                                   1 0 2 2 11 2é 33 44 55\n");
    assert!(n <= 1);
}

#[test]
fn f28_hex_to_bytes_on_non_ascii_text() {
    // 5 bytes (2 + 3k): the first two-byte slice ends inside the three-byte '€'
    assert!(adlt::utils::hex_to_bytes("€11").is_none());
    // and through the .asc reader: the data slice starts and ends on boundaries, the text inside does not
    let n = run("date Tue Apr 12 08:55:37.985 am 2022\n   0.000000 1  123             Rx   d 2 €11 33 44 55\n");
    assert!(n <= 1);
}
