// Finding F34 (C03): get_apid_for_tag numbers a tag whose abbreviation is taken: "abcd" -> "abc1" .. "abc9", "ab10" .. "a999", "1000" .. "9999".
// From 10000 on the number no longer fits into four characters (DltChar4::from_str keeps the first four: "10000" -> "1000"), so once all
// 10000 candidates of an abbreviation are taken no later iteration can find a free one: the u16 counter runs to 65535 and `iteration += 1`
// overflows - a panic in a debug build, an endless loop (holding the global map's write lock) in a release build. A logcat / generic-log
// file needs 10001 lines with suitable tags for this; here the same tags are handed to get_apid_for_tag directly.
use adlt::utils::{get_apid_for_tag, get_new_namespace};

#[test]
fn f34_all_numbers_of_an_abbreviation_taken() {
    let ns = get_new_namespace();
    // tags of four characters are their own APID at iteration 0: occupy every candidate of the abbreviation "abcd"
    let mut n = 0;
    let mut take = |t: String| {
        let a = get_apid_for_tag(ns, &t);
        assert_eq!(format!("{}", a), t);
        n += 1;
    };
    take("abcd".to_string());
    for i in 1..10 { take(format!("abc{}", i)); }
    for i in 10..100 { take(format!("ab{}", i)); }
    for i in 100..1000 { take(format!("a{}", i)); }
    for i in 1000..10000 { take(format!("{}", i)); }
    assert_eq!(n, 10000);
    // a fifth-character tag abbreviated to "abcd": every candidate is taken
    let a = get_apid_for_tag(ns, "abcde");
    // the property only asks for termination without panic; which APID the tag then shares is not specified
    let _ = a;
}
