// Findings F12 / F13 (C16, obligations search.continuation and search.stream_len of unit streamsearch), shown end to end on
// the real `adlt remote` binary built from /repo's working tree:
//  F12: the continuation position returned by stream_search skipped one stream position per page (Some(i + 1) after the
//       loop had already advanced past the last examined position), so a client paging through a search missed matches;
//  F13: a search in a stream without filters looked at stream.filtered_msgs (unused/empty for such a stream) instead of all
//       messages and returned nothing.
use std::io::{BufRead, BufReader};
use std::process::{Child, Command, Stdio};
use std::time::{Duration, Instant};
use tungstenite::stream::MaybeTlsStream;
use tungstenite::{Message, WebSocket};

struct Server(Child);
impl Drop for Server {
    fn drop(&mut self) { let _ = self.0.kill(); let _ = self.0.wait(); }
}

type Ws = WebSocket<MaybeTlsStream<std::net::TcpStream>>;

fn start() -> (Server, Ws) {
    // the binary of /repo's current working tree
    let st = Command::new("cargo").args(["build", "--offline", "--manifest-path", "/repo/Cargo.toml", "--bin", "adlt"])
        .env("CARGO_NET_OFFLINE", "true").stdout(Stdio::null()).stderr(Stdio::null()).status().expect("cargo build");
    assert!(st.success(), "cargo build --bin adlt failed");
    let port = portpicker::pick_unused_port().expect("no port");
    let mut child = Command::new("/repo/target/debug/adlt").args(["remote", "-p", &port.to_string()])
        .stdout(Stdio::null()).stderr(Stdio::piped()).spawn().expect("spawn adlt remote");
    // drain stderr in the background so the server never blocks on a full pipe
    let err = child.stderr.take().unwrap();
    std::thread::spawn(move || { for _l in BufReader::new(err).lines() {} });
    let server = Server(child);
    let t0 = Instant::now();
    loop {
        match tungstenite::client::connect(format!("ws://127.0.0.1:{}", port)) {
            Ok((ws, _)) => {
                if let MaybeTlsStream::Plain(s) = ws.get_ref() { s.set_read_timeout(Some(Duration::from_secs(20))).unwrap(); }
                return (server, ws);
            }
            Err(e) => {
                assert!(t0.elapsed() < Duration::from_secs(10), "could not connect: {e}");
                std::thread::sleep(Duration::from_millis(50));
            }
        }
    }
}

// send a command and return the first text frame that is a reply (`ok:` / `err:`) to it
fn cmd(ws: &mut Ws, c: &str, reply_prefix: &str) -> String {
    ws.write_message(Message::Text(c.to_string())).unwrap();
    loop {
        match ws.read_message().expect("reply") {
            Message::Text(s) => {
                if s.starts_with(reply_prefix) || s.starts_with("err:") { return s; }
            }
            _ => {}
        }
    }
}

fn json_after(s: &str, c: char) -> serde_json::Value {
    let i = s.find(c).unwrap();
    serde_json::from_str(&s[i..].trim_start_matches('=')).unwrap_or_else(|e| panic!("no json in {s}: {e}"))
}

fn open_stream(ws: &mut Ws, filters: &str) -> u64 {
    let r = cmd(ws, &format!(r#"stream {{"window":[0,10],"binary":true{}}}"#, filters), "ok: stream");
    assert!(r.starts_with("ok: stream"), "{r}");
    json_after(&r, '{')["id"].as_u64().unwrap()
}

fn search(ws: &mut Ws, id: u64, start: u64, max: u64) -> (Vec<u64>, Option<u64>) {
    let r = cmd(ws, &format!(r#"stream_search {} {{"filters":[{{"type":0,"apid":"A008"}}],"start_idx":{},"max_results":{}}}"#, id, start, max), "ok: stream_search");
    assert!(r.starts_with("ok: stream_search"), "{r}");
    let v = json_after(&r, '=');
    (v["search_idxs"].as_array().unwrap().iter().map(|x| x.as_u64().unwrap()).collect(), v["next_search_idx"].as_u64())
}

const FILE: &str = "/repo/tests/lc_ex002.dlt"; // 11696 messages, 203 of them with APID A008

fn opened() -> (Server, Ws) {
    let (server, mut ws) = start();
    let r = cmd(&mut ws, &format!(r#"open {{"files":[{}]}}"#, serde_json::json!(FILE)), "ok: open");
    assert!(r.starts_with("ok: open"), "{r}");
    (server, ws)
}

// wait until the stream has been filled (the file is parsed within milliseconds): poll the search until its result is stable
fn settled_search(ws: &mut Ws, id: u64, max: u64) -> (Vec<u64>, Option<u64>) {
    let mut last = search(ws, id, 0, max);
    for _ in 0..40 {
        std::thread::sleep(Duration::from_millis(150));
        let cur = search(ws, id, 0, max);
        if cur == last && !(cur.0.is_empty() && last.0.is_empty()) { return cur; }
        last = cur;
    }
    last
}

#[test]
fn f13_search_in_a_stream_without_filters_finds_the_matching_messages() {
    let (_server, mut ws) = opened();
    let id = open_stream(&mut ws, "");
    let (idxs, next) = settled_search(&mut ws, id, 100000);
    assert_eq!(idxs.len(), 203, "search for APID A008 in the unfiltered stream of {FILE}: {} hits, next {:?}", idxs.len(), next);
    assert_eq!(next, None);
}

#[test]
fn f12_paging_through_a_search_sees_every_position_once() {
    let (_server, mut ws) = opened();
    // a stream with exactly the 203 A008 messages; the search filter matches every stream position
    let id = open_stream(&mut ws, r#","filters":[{"type":0,"apid":"A008"}]"#);
    let (all, next) = settled_search(&mut ws, id, 100000);
    assert_eq!((all.len(), next), (203, None), "one big page");
    let mut union = vec![];
    let mut start = Some(0u64);
    let mut pages = 0;
    while let Some(s) = start {
        let (idxs, next) = search(&mut ws, id, s, 50);
        union.extend(idxs);
        start = next;
        pages += 1;
        assert!(pages < 100);
    }
    assert_eq!(union, (0..203u64).collect::<Vec<_>>(), "union of the pages of size 50 (continuation positions followed)");
}
