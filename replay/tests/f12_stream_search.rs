// Findings F12 / F13 (C16, obligations search.continuation and search.stream_len of unit streamsearch), shown end to end on
// the real `adlt remote` binary built from /repo's working tree:
//  F12: the continuation position returned by stream_search skipped one stream position per page (Some(i + 1) after the
//       loop had already advanced past the last examined position), so a client paging through a search missed matches;
//  F13: a search in a stream without filters looked at stream.filtered_msgs (unused/empty for such a stream) instead of all
//       messages and returned nothing.
include!("f12_stream_search.rs_common");

// wait until the stream has been filled (the file is parsed within milliseconds): poll the search until its result is stable
fn settled_search(ws: &mut Ws, id: u64, max: u64) -> (Vec<u64>, Option<u64>) {
    let mut last = search(ws, id, 0, max);
    for _ in 0..40 {
        std::thread::sleep(Duration::from_millis(150));
        let cur = search(ws, id, 0, max);
        if cur == last && !(cur.0.is_empty() && last.0.is_empty()) { return cur; }
        last = cur;
    }
    last
}

#[test]
fn f13_search_in_a_stream_without_filters_finds_the_matching_messages() {
    let (_server, mut ws) = opened();
    let id = open_stream(&mut ws, "");
    let (idxs, next) = settled_search(&mut ws, id, 100000);
    assert_eq!(idxs.len(), 203, "search for APID A008 in the unfiltered stream of {FILE}: {} hits, next {:?}", idxs.len(), next);
    assert_eq!(next, None);
}

#[test]
fn f12_paging_through_a_search_sees_every_position_once() {
    let (_server, mut ws) = opened();
    // a stream with exactly the 203 A008 messages; the search filter matches every stream position
    let id = open_stream(&mut ws, r#","filters":[{"type":0,"apid":"A008"}]"#);
    let (all, next) = settled_search(&mut ws, id, 100000);
    assert_eq!((all.len(), next), (203, None), "one big page");
    let mut union = vec![];
    let mut start = Some(0u64);
    let mut pages = 0;
    while let Some(s) = start {
        let (idxs, next) = search(&mut ws, id, s, 50);
        union.extend(idxs);
        start = next;
        pages += 1;
        assert!(pages < 100);
    }
    assert_eq!(union, (0..203u64).collect::<Vec<_>>(), "union of the pages of size 50 (continuation positions followed)");
}
