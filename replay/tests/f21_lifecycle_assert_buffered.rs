// Finding F21 (C03/C05, obligation stream.assert_buffered of unit lcstream): parse_lifecycles_buffered_from_stream contains
//   assert!(buffered_lcs.contains(&lc2.id), ..)   "logical error otherwise (prev lc still buffered but the newer one ... not?)"
// in the branch that merges the current lifecycle lc2 into a previous one that is still buffered. The newer lifecycle can be
// confirmed (removed from buffered_lcs) on its own by the criterion "timestamps span more than the max buffering delay" while the
// previous one is confirmed by none of the three criteria; a later message that moves lc2's start estimate further into the
// previous lifecycle then requests the merge and the assert fires: the detector thread panics on plain input.
use adlt::dlt::{DltChar4, DltExtendedHeader, DltMessage, DltStandardHeader};
use adlt::lifecycle::{parse_lifecycles_buffered_from_stream, Lifecycle};

fn msg(index: u32, reception_us: u64, timestamp_us: u64) -> DltMessage {
    DltMessage {
        index, reception_time_us: reception_us, ecu: DltChar4::from_buf(b"ECU1"), timestamp_dms: (timestamp_us / 100) as u32,
        standard_header: DltStandardHeader { htyp: 0x31, mcnt: 0, len: 0 },
        extended_header: Some(DltExtendedHeader { verb_mstp_mtin: 0x41, noar: 0, apid: DltChar4::from_buf(b"APID"), ctid: DltChar4::from_buf(b"CTID") }),
        payload: vec![], payload_text: None, lifecycle: 0,
    }
}
const MS: u64 = 1_000;

#[test]
fn f21_confirmed_lifecycle_merged_into_buffered_predecessor_does_not_panic() {
    // (reception ms, timestamp ms)
    let stream: [(u64, u64); 6] = [
        (1_000_000, 1_000),   // lifecycle a: start 999 s
        (1_012_000, 13_000),  // a: end 1012 s (longer than 10 s)
        (1_013_000, 1_500),   // calculated start 1011.5 s: within the last 2 s of a -> new lifecycle b (slightly overlapping)
        (1_043_000, 31_000),  // b
        (1_071_800, 61_700),  // b: start 1010.1 s (still slightly overlapping: no merge); timestamps span 60.2 s > 60 s: b confirmed, a not
        (1_071_900, 66_000),  // b: start 1005.9 s: overlaps a, no longer "slightly": merge requested; a buffered, b not
    ];
    let (tx, rx) = std::sync::mpsc::channel();
    let (tx2, rx2) = std::sync::mpsc::channel();
    for (i, (r, t)) in stream.iter().enumerate() { tx.send(msg(i as u32, r * MS, t * MS)).unwrap(); }
    drop(tx);
    let (lcs_r, lcs_w) = evmap::new::<u32, Lifecycle>();
    let t = std::thread::spawn(move || parse_lifecycles_buffered_from_stream(lcs_w, rx, &|m| tx2.send(m)));
    let res = t.join();
    assert!(res.is_ok(), "lifecycle detection panicked");
    let out: Vec<DltMessage> = rx2.iter().collect();
    assert_eq!(out.len(), stream.len(), "every message is forwarded once");
    for (i, m) in out.iter().enumerate() { assert_eq!(m.index, i as u32); assert_ne!(m.lifecycle, 0); }
    let _lcs_w = res.unwrap();
    let r = lcs_r.read().unwrap();
    for m in &out { assert!(r.get_one(&m.lifecycle).is_some(), "lifecycle {} of msg {} not in the table", m.lifecycle, m.index); }
}
