// Finding F29 (C03): two logcat tags of at most 4 bytes that are not ASCII and would get the same fallback APID: for the second one
// get_apid_for_tag asks get_4digit_str for a shortened name and that slices the tag by a byte count: "abè" (a, b, two-byte è) is cut at
// byte 3 - a panic ('byte index 3 is not a char boundary') in the logcat converter, on a valid UTF-8 file.
use adlt::utils::{get_apid_for_tag, get_new_namespace};

#[test]
fn f29_two_short_non_ascii_tags() {
    let ns = get_new_namespace();
    let a1 = get_apid_for_tag(ns, "abé");
    let a2 = get_apid_for_tag(ns, "abè");
    assert_ne!(a1, a2, "different tags, different APIDs");
}
