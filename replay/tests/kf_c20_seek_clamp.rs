// Known finding (C20, obligation seek.file_exact): seek targets outside [0, len] are clamped.
// Run with: cargo test --offline --test kf_c20_seek_clamp -- --ignored   (fails: documents the deviation)
use adlt::utils::seekablechain::SeekableChain;
use std::io::{Cursor, Seek, SeekFrom};

#[test]
#[ignore]
fn kf_seek_beyond_end_returns_requested_position_like_a_file() {
    let mut chain = SeekableChain::new(vec![Cursor::new(b"ab".to_vec()), Cursor::new(b"cde".to_vec())]);
    let mut file = Cursor::new(b"abcde".to_vec());
    assert_eq!(chain.seek(SeekFrom::Start(8)).unwrap(), file.seek(SeekFrom::Start(8)).unwrap());
}

#[test]
#[ignore]
fn kf_negative_seek_fails_like_a_file() {
    let mut chain = SeekableChain::new(vec![Cursor::new(b"ab".to_vec()), Cursor::new(b"cde".to_vec())]);
    let mut file = Cursor::new(b"abcde".to_vec());
    assert_eq!(chain.seek(SeekFrom::Current(-1)).is_err(), file.seek(SeekFrom::Current(-1)).is_err());
}
