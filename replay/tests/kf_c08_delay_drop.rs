// Known finding (C08): two cleanly separated boots of one ECU in the property's literal sense - every message of boot A is received
// before every message of boot B, each boot has one transport delay - are reported as ONE lifecycle when the delay drops between the
// boots by more than the off-time: boot A at t=0 with 5 s delay (messages with timestamps 0..100 s, received 5..105 s), boot B at
// t=101 s (1 s off-time) with no delay, first message received with timestamp 4.5 s at 105.5 s. Calculated start of B's messages:
// 101 s, not later than A's end (start 5 s + largest timestamp 100 s = 105 s): the membership test of Lifecycle::update takes them for
// messages of A. (The detector cannot tell this apart from late messages of A; the clean-trace theorem of unit `lifecycle` holds under
// the hypothesis that a boot's calculated start - boot time plus delay - lies after every reception time of the previous boot.)
use adlt::dlt::{DltChar4, DltExtendedHeader, DltMessage, DltStandardHeader};
use adlt::lifecycle::{parse_lifecycles_buffered_from_stream, Lifecycle};

fn msg(index: u32, reception_us: u64, timestamp_us: u64) -> DltMessage {
    DltMessage {
        index, reception_time_us: reception_us, ecu: DltChar4::from_buf(b"ECU1"), timestamp_dms: (timestamp_us / 100) as u32,
        standard_header: DltStandardHeader { htyp: 0x31, mcnt: 0, len: 0 },
        extended_header: Some(DltExtendedHeader { verb_mstp_mtin: 0x41, noar: 0, apid: DltChar4::from_buf(b"APID"), ctid: DltChar4::from_buf(b"CTID") }),
        payload: vec![], payload_text: None, lifecycle: 0,
    }
}
const S: u64 = 1_000_000;
const BASE: u64 = 1_700_000_000 * S;

fn run(stream: &[(u64, u64)]) -> (Vec<DltMessage>, usize) {
    let (tx, rx) = std::sync::mpsc::channel();
    let (tx2, rx2) = std::sync::mpsc::channel();
    for (i, (r, t)) in stream.iter().enumerate() { tx.send(msg(i as u32, *r, *t)).unwrap(); }
    drop(tx);
    let (lcs_r, lcs_w) = evmap::new::<u32, Lifecycle>();
    let t = std::thread::spawn(move || parse_lifecycles_buffered_from_stream(lcs_w, rx, &|m| tx2.send(m)));
    let _w = t.join().unwrap();
    let out: Vec<DltMessage> = rx2.iter().collect();
    let n = lcs_r.read().unwrap().iter().count();
    (out, n)
}

fn two_boots(delay_a: u64, delay_b: u64) -> Vec<(u64, u64)> {
    let mut v = vec![];
    for k in 0..=100u64 { v.push((BASE + delay_a + k * S, k * S)); }                              // boot A at BASE
    for k in 0..=100u64 { v.push((BASE + 101 * S + delay_b + 4_500_000 + k * S, 4_500_000 + k * S)); } // boot B at BASE + 101 s
    v
}

// the same two boots with equal delays: two lifecycles, every message in the lifecycle of its boot
#[test]
fn c08_equal_delays_two_lifecycles() {
    let (out, n) = run(&two_boots(5 * S, 5 * S));
    assert_eq!(n, 2);
    assert!(out[..101].iter().all(|m| m.lifecycle == out[0].lifecycle));
    assert!(out[101..].iter().all(|m| m.lifecycle == out[101].lifecycle));
    assert_ne!(out[0].lifecycle, out[101].lifecycle);
}

// known finding: the delay drops from 5 s to 0 -> one lifecycle (the test documents the behaviour; it passes as long as the finding stands)
#[test]
fn kf_c08_delay_drop_merges_two_boots() {
    let stream = two_boots(5 * S, 0);
    // clean in the property's sense: receptions of A all before receptions of B
    let max_a = stream[..101].iter().map(|x| x.0).max().unwrap();
    let min_b = stream[101..].iter().map(|x| x.0).min().unwrap();
    assert!(max_a < min_b);
    let (out, n) = run(&stream);
    assert_eq!(n, 1, "finding no longer reproduces: the two boots are told apart");
    assert_eq!(out[0].lifecycle, out[150].lifecycle);
}
