// Finding F31 (C03): a CAN .asc stream with a second `date` line several days after the reference time (the first message of the first
// file - what `adlt convert` passes for every .asc input) and a large relative timestamp: Asc2DltMsgIterator::timestamp_dms_from adds
// the two 0.1 ms values with the plain `+` on u32: an arithmetic overflow (a panic in a build with overflow checks, a wrapped timestamp
// otherwise).
use adlt::utils::{get_new_namespace, Asc2DltMsgIterator};
use std::io::Cursor;

#[test]
fn f31_offset_plus_timestamp_overflows_u32() {
    let text = "date Tue Apr 12 08:55:37.985 am 2022\n   1.000000 1  123             Rx   d 1 11\ndate Sun Apr 17 12:55:37.985 am 2022\n   30000.000000 1  123             Rx   d 1 11\n";
    // reference time: the first message of the first file (12 Apr 2022 08:55:38.985 UTC, in us)
    let ref_us: u64 = 1_649_753_738_985_000;
    let rdr = std::io::BufReader::new(Cursor::new(text.as_bytes().to_vec()));
    let it = Asc2DltMsgIterator::new(0, rdr, get_new_namespace(), Some(ref_us), None);
    let msgs: Vec<_> = it.collect();
    for m in &msgs { println!("idx {} rt {} ts {}", m.index, m.reception_time_us, m.timestamp_dms); }
    assert!(msgs.len() >= 2, "{}", msgs.len());
    // timestamps are monotonic across the date lines when a reference time is given
    assert!(msgs[msgs.len() - 1].timestamp_dms >= msgs[0].timestamp_dms, "{} {}", msgs[0].timestamp_dms, msgs[msgs.len() - 1].timestamp_dms);
}
