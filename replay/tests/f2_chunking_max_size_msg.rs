// Finding F2 (C04): with low_mark == DLT_MAX_STORAGE_MSG_SIZE the next-marker plausibility heuristic of the storage
// parser sees the bytes after a maximum-size message or not, depending on how the underlying reader chunks the data.
// The adlt binaries create their readers exactly like `reader()` below (BUFREADER_CAPACITY = 512 KiB).
use adlt::dlt::DLT_MAX_STORAGE_MSG_SIZE;
use adlt::utils::{DltMessageIterator, LowMarkBufReader};
use std::io::Read;

struct Chunked { data: Vec<u8>, pos: usize, chunks: Vec<usize>, k: usize }
impl Read for Chunked {
    fn read(&mut self, buf: &mut [u8]) -> std::io::Result<usize> {
        let want = if self.k < self.chunks.len() { self.chunks[self.k] } else { usize::MAX };
        self.k += 1;
        let n = want.min(buf.len()).min(self.data.len() - self.pos);
        buf[..n].copy_from_slice(&self.data[self.pos..self.pos + n]);
        self.pos += n;
        Ok(n)
    }
}

fn storage_msg(payload: &[u8]) -> Vec<u8> {
    let mut m = vec![0x44, 0x4c, 0x54, 0x01, 1, 0, 0, 0, 2, 0, 0, 0, b'E', b'C', b'U', b'1'];
    let len = (4 + payload.len()) as u16;
    m.extend_from_slice(&[0x20, 0x00]);
    m.extend_from_slice(&len.to_be_bytes());
    m.extend_from_slice(payload);
    m
}

fn stream() -> Vec<u8> {
    let mut payload = vec![0u8; 65531];
    payload[100..104].copy_from_slice(&[0x44, 0x4c, 0x54, 0x01]); // frame marker inside the payload
    let mut s = storage_msg(&payload);
    assert_eq!(s.len(), DLT_MAX_STORAGE_MSG_SIZE);
    s.extend_from_slice(&[0xaa; 6]); // garbage
    s.extend_from_slice(&storage_msg(&[1, 2, 3]));
    s
}

fn count(chunks: Vec<usize>, low_mark: usize) -> usize {
    let r = Chunked { data: stream(), pos: 0, chunks, k: 0 };
    let it = DltMessageIterator::new(0, LowMarkBufReader::new(r, 512 * 1024, low_mark));
    it.count()
}

// the low mark the adlt binaries pass: third argument of LowMarkBufReader::new(..) in src/bin/adlt/convert.rs, read from
// the source (the binaries are not a library; only the two forms below are understood)
fn callers_low_mark() -> usize {
    let src = std::fs::read_to_string("/repo/src/bin/adlt/convert.rs").unwrap();
    let i = src.find("LowMarkBufReader::new(fi, BUFREADER_CAPACITY,").expect("call site not found");
    let rest = &src[i + "LowMarkBufReader::new(fi, BUFREADER_CAPACITY,".len()..];
    let arg: String = rest[..rest.find(')').unwrap()].split_whitespace().collect();
    match arg.as_str() {
        "DLT_MAX_STORAGE_MSG_SIZE" => DLT_MAX_STORAGE_MSG_SIZE,
        "DLT_MAX_STORAGE_MSG_SIZE+4" => DLT_MAX_STORAGE_MSG_SIZE + 4,
        other => panic!("unknown low mark expression {other}"),
    }
}

#[test]
fn f2_same_messages_for_every_chunking() {
    let whole = count(vec![], callers_low_mark());
    let split = count(vec![DLT_MAX_STORAGE_MSG_SIZE], callers_low_mark());
    assert_eq!(whole, split, "one read: {whole} messages; first read of exactly one message: {split} messages");
}
