// Finding F22 (C07, obligation table.no_merged_lifecycle of unit lcstream; fixed in /repo): a lifecycle that was confirmed (published
// to the table) and is merged into its predecessor afterwards stayed in the published table although no delivered message carried
// its id (a "phantom" lifecycle with a stale count). Same stream as f21.
use adlt::dlt::{DltChar4, DltExtendedHeader, DltMessage, DltStandardHeader};
use adlt::lifecycle::{parse_lifecycles_buffered_from_stream, Lifecycle};

fn msg(index: u32, reception_us: u64, timestamp_us: u64) -> DltMessage {
    DltMessage {
        index, reception_time_us: reception_us, ecu: DltChar4::from_buf(b"ECU1"), timestamp_dms: (timestamp_us / 100) as u32,
        standard_header: DltStandardHeader { htyp: 0x31, mcnt: 0, len: 0 },
        extended_header: Some(DltExtendedHeader { verb_mstp_mtin: 0x41, noar: 0, apid: DltChar4::from_buf(b"APID"), ctid: DltChar4::from_buf(b"CTID") }),
        payload: vec![], payload_text: None, lifecycle: 0,
    }
}
const MS: u64 = 1_000;

#[test]
fn every_listed_lifecycle_is_referenced_and_counts_agree() {
    let stream: [(u64, u64); 6] = [(1_000_000, 1_000), (1_012_000, 13_000), (1_013_000, 1_500), (1_043_000, 31_000), (1_071_800, 61_700), (1_071_900, 66_000)];
    let (tx, rx) = std::sync::mpsc::channel();
    let (tx2, rx2) = std::sync::mpsc::channel();
    for (i, (r, t)) in stream.iter().enumerate() { tx.send(msg(i as u32, r * MS, t * MS)).unwrap(); }
    drop(tx);
    let (lcs_r, lcs_w) = evmap::new::<u32, Lifecycle>();
    let _lcs_w = parse_lifecycles_buffered_from_stream(lcs_w, rx, &|m| tx2.send(m));
    drop(tx2);
    let out: Vec<DltMessage> = rx2.iter().collect();
    assert_eq!(out.len(), stream.len());
    let r = lcs_r.read().unwrap();
    let mut total = 0;
    for (id, b) in &r {
        let lc = b.get_one().unwrap();
        let n = out.iter().filter(|m| m.lifecycle == *id).count();
        println!("lifecycle {} nr_msgs {} delivered {}", id, lc.nr_msgs, n);
        assert!(n > 0, "lifecycle {} is listed but no delivered message carries its id", id);
        assert_eq!(lc.nr_msgs as usize, n, "lifecycle {}", id);
        total += lc.nr_msgs as usize;
    }
    assert_eq!(total, out.len());
}
