// Finding F27 (C15): `fs {"cmd":"readDirectory"|"stat","path":"<file>.zip!/.."}` on a file that has an archive name but is not a readable
// archive: fs_cmd_archive unwrapped the result of listing the archive's contents and panicked - the connection was reset instead of an
// `err:` reply. End to end on the real `adlt remote` binary.
include!("f12_stream_search.rs_common");

fn ask(ws: &mut Ws, c: &str) -> String {
    ws.write_message(Message::Text(c.to_string())).unwrap();
    for _ in 0..200 {
        match ws.read_message() {
            Ok(Message::Text(s)) => { if s.starts_with("ok: fs") || s.starts_with("err: fs") { return s; } }
            Ok(_) => {}
            Err(e) => { return format!("connection lost: {e}"); }
        }
    }
    "no reply".to_string()
}

#[test]
fn f27_fs_on_a_corrupt_archive_is_answered() {
    let dir = std::env::temp_dir().join(format!("adlt_f27_{}", std::process::id()));
    std::fs::create_dir_all(&dir).unwrap();
    let f = dir.join("garbage.zip");
    std::fs::write(&f, b"this is not a zip archive at all").unwrap();
    let (_server, mut ws) = start();
    for cmd in ["readDirectory", "stat"] {
        let r = ask(&mut ws, &format!(r#"fs {{"cmd":"{}","path":"{}!/x"}}"#, cmd, f.display()));
        assert!(r.starts_with("ok:") || r.starts_with("err:"), "reply to fs {cmd} on a corrupt archive: {r}");
    }
    let _ = std::fs::remove_dir_all(&dir);
}
