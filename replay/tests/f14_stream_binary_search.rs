// Finding F14 (C16): stream_binary_search index=<n> in a stream without filters (no --sort): binary_search_by_msg_index looked
// the position up in stream.filtered_msgs, which is unused (empty) for such a stream, and answered 0 for every index.
// End to end on the real `adlt remote` binary built from /repo's working tree.
include!("f12_stream_search.rs_common");

fn lookup(ws: &mut Ws, id: u64, what: &str) -> String {
    cmd(ws, &format!("stream_binary_search {} {}", id, what), "ok: stream_binary_search")
}

#[test]
fn f14_index_lookup_in_a_stream_without_filters() {
    let (_server, mut ws) = opened();
    let id = open_stream(&mut ws, "");
    // wait until the file is loaded: the lookup of the last index succeeds
    let mut r = String::new();
    for _ in 0..60 {
        r = lookup(&mut ws, id, "index=11695");
        if r.starts_with("ok:") { break; }
        std::thread::sleep(Duration::from_millis(100));
    }
    assert!(r.starts_with("ok:"), "{r}");
    for want in [0u64, 1, 77, 5000, 11695] {
        let r = lookup(&mut ws, id, &format!("index={}", want));
        let v = json_after(&r, '=');
        // lc_ex002.dlt has no messages removed by plugins: message index == position in the unfiltered stream
        assert_eq!(v["filtered_msg_index"].as_u64(), Some(want), "lookup of message index {want} in the unfiltered stream: {r}");
    }
}
