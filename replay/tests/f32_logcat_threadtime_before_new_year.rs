// Finding F32 (C03): a logcat threadtime line dated later in the year than the reference date (the file's modification time) is
// taken to be from the previous year; it then lies before 1 Jan 12:00 of the reference year and is treated as a monotonic time stamp
// relative to 1 Jan 00:00 - a NEGATIVE duration that is cast to u64 and added to the recording start: an arithmetic overflow.
use adlt::utils::{get_new_namespace, LogCat2DltMsgIterator};
use std::io::Cursor;

#[test]
fn f32_line_dated_after_the_reference_date() {
    let text = "12-31 23:59:00.000  123  456 I tag: msg\n";
    let file_modified_us: u64 = 1_717_200_000_000_000; // 2024-06-01 00:00:00 UTC
    let rdr = std::io::BufReader::new(Cursor::new(text.as_bytes().to_vec()));
    let it = LogCat2DltMsgIterator::new(0, rdr, get_new_namespace(), None, Some(file_modified_us), None);
    let msgs: Vec<_> = it.collect();
    for m in &msgs { println!("idx {} rt {} ts {}", m.index, m.reception_time_us, m.timestamp_dms); }
    assert!(!msgs.is_empty());
    // a reception time in the year before the reference date, not a wrapped number
    assert!(msgs.iter().all(|m| m.reception_time_us < file_modified_us), "{:?}", msgs.iter().map(|m| m.reception_time_us).collect::<Vec<_>>());
}
