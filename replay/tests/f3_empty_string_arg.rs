// Finding F3 (C18): payload_from_args wrote no length field for an empty string / raw argument, so decoding the
// payload did not give the arguments back.
use adlt::dlt::{DltArg, DltMessage, DLT_SCOD_UTF8, DLT_TYPE_INFO_STRG, DLT_TYPE_INFO_UINT, DLT_TYLE_8BIT};
use adlt::utils::payload_from_args;

#[test]
fn f3_empty_string_argument_round_trips() {
    let args = [
        DltArg { type_info: DLT_TYPE_INFO_STRG | DLT_SCOD_UTF8, is_big_endian: false, payload_raw: &[] },
        DltArg { type_info: DLT_TYPE_INFO_UINT | DLT_TYLE_8BIT as u32, is_big_endian: false, payload_raw: &[42] },
    ];
    let payload = payload_from_args(&args);
    let msg = DltMessage::get_testmsg_with_payload(false, 2, &payload);
    let decoded: Vec<DltArg> = (&msg).into_iter().collect();
    assert_eq!(decoded.len(), 2, "encoded 2 arguments, decoded {}: payload {:?}", decoded.len(), payload);
    assert_eq!(decoded[0], args[0]);
    assert_eq!(decoded[1], args[1]);
}
