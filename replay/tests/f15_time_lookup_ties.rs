// Finding F15 (C16): stream_binary_search time_ms=<t>: when several messages have exactly the requested time, std's
// binary_search_by returns any one of them, not the first; the lookup then answers a position in the middle of the run of equal
// messages instead of "the first stream message not before the requested time". End to end on the real `adlt remote` binary.
include!("f12_stream_search.rs_common");

fn dlt_msg(secs: u32, micros: u32, timestamp_dms: u32, mcnt: u8) -> Vec<u8> {
    let mut v = vec![];
    v.extend_from_slice(b"DLT\x01");
    v.extend_from_slice(&secs.to_le_bytes());
    v.extend_from_slice(&micros.to_le_bytes());
    v.extend_from_slice(b"ECU1");
    // standard header: UEH | WEID | WTMS | version 1
    v.push(0x35);
    v.push(mcnt);
    v.extend_from_slice(&22u16.to_be_bytes());
    v.extend_from_slice(b"ECU1");
    v.extend_from_slice(&timestamp_dms.to_be_bytes());
    // extended header: verbose log info, no arguments
    v.push(0x41);
    v.push(0);
    v.extend_from_slice(b"APID");
    v.extend_from_slice(b"CTID");
    v
}

#[test]
fn f15_time_lookup_answers_the_first_message_not_before() {
    // 3 messages at 1000 s, 5 messages at exactly 1001 s (same reception time, same timestamp), 2 messages at 1002 s;
    // all of one lifecycle that started at reception - timestamp = 900 s
    let mut data = vec![];
    let mut n = 0u8;
    for (secs, cnt) in [(1000u32, 3), (1001, 5), (1002, 2)] {
        for _ in 0..cnt {
            data.extend(dlt_msg(secs, 0, (secs - 900) * 10_000, n));
            n += 1;
        }
    }
    let dir = std::env::temp_dir().join(format!("adlt_verif_f15_{}", std::process::id()));
    std::fs::create_dir_all(&dir).unwrap();
    let file = dir.join("ties.dlt");
    std::fs::write(&file, &data).unwrap();

    let (_server, mut ws) = start();
    let r = cmd(&mut ws, &format!(r#"open {{"files":[{}]}}"#, serde_json::json!(file.to_str().unwrap())), "ok: open");
    assert!(r.starts_with("ok: open"), "{r}");
    let id = open_stream(&mut ws, "");
    // wait until all 10 messages are loaded
    let mut r = String::new();
    for _ in 0..60 {
        r = cmd(&mut ws, &format!("stream_binary_search {} index=9", id), "ok: stream_binary_search");
        if r.starts_with("ok:") { break; }
        std::thread::sleep(Duration::from_millis(100));
    }
    assert!(r.starts_with("ok:"), "{r}");
    let mut got = vec![];
    for (t_ms, _want) in [(999_000u64, 0u64), (1_000_000, 0), (1_000_500, 3), (1_001_000, 3), (1_001_001, 8), (1_002_000, 8), (1_003_000, 10)] {
        let r = cmd(&mut ws, &format!("stream_binary_search {} time_ms={}", id, t_ms), "ok: stream_binary_search");
        got.push((t_ms, json_after(&r, '=')["filtered_msg_index"].as_u64().unwrap()));
    }
    let _ = std::fs::remove_dir_all(&dir);
    assert_eq!(got, vec![(999_000, 0), (1_000_000, 0), (1_000_500, 3), (1_001_000, 3), (1_001_001, 8), (1_002_000, 8), (1_003_000, 10)],
        "(time_ms, answered stream position) for messages at 1000 s (positions 0-2), 1001 s (3-7), 1002 s (8-9)");
}

// F16: the same run of messages with equal times, file opened with "sort": true, stream with a filter that keeps every message:
// the lookup by message index searched the filtered stream by *time* and answered some message of the run, not the requested one.
#[test]
fn f16_index_lookup_in_a_time_sorted_filtered_stream() {
    let mut data = vec![];
    let mut n = 0u8;
    for (secs, cnt) in [(1000u32, 3), (1001, 5), (1002, 2)] {
        for _ in 0..cnt {
            data.extend(dlt_msg(secs, 0, (secs - 900) * 10_000, n));
            n += 1;
        }
    }
    let dir = std::env::temp_dir().join(format!("adlt_verif_f16_{}", std::process::id()));
    std::fs::create_dir_all(&dir).unwrap();
    let file = dir.join("ties.dlt");
    std::fs::write(&file, &data).unwrap();

    let (_server, mut ws) = start();
    let r = cmd(&mut ws, &format!(r#"open {{"sort":true,"files":[{}]}}"#, serde_json::json!(file.to_str().unwrap())), "ok: open");
    assert!(r.starts_with("ok: open"), "{r}");
    let id = open_stream(&mut ws, r#","filters":[{"type":0,"apid":"APID"}]"#);
    let mut r = String::new();
    for _ in 0..60 {
        r = cmd(&mut ws, &format!("stream_binary_search {} index=9", id), "ok: stream_binary_search");
        if r.starts_with("ok:") && json_after(&r, '=')["filtered_msg_index"].as_u64() == Some(9) { break; }
        std::thread::sleep(Duration::from_millis(100));
    }
    let mut got = vec![];
    for idx in 0..10u64 {
        let r = cmd(&mut ws, &format!("stream_binary_search {} index={}", id, idx), "ok: stream_binary_search");
        assert!(r.starts_with("ok:"), "{r}");
        got.push(json_after(&r, '=')["filtered_msg_index"].as_u64().unwrap());
    }
    let _ = std::fs::remove_dir_all(&dir);
    assert_eq!(got, (0..10u64).collect::<Vec<_>>(), "stream position answered for message index 0..9 (every message is in the stream, in order)");
}
