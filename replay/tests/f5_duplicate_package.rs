// Finding F5 (C17, obligation ft.dup_ok; fixed in /repo): a duplicate of a data package that is not the last one was counted
// as a received package, so packages 1,1,2,3 of a 3-package transfer ended as "Incomplete ... Missed package 3".
use adlt::dlt::{DltArg, DltMessage, DLT_TYLE_32BIT, DLT_TYPE_INFO_RAWD, DLT_TYPE_INFO_SINT, DLT_TYPE_INFO_STRG, DLT_TYPE_INFO_UINT};
use adlt::plugins::file_transfer::FileTransferPlugin;
use adlt::plugins::plugin::Plugin;
use adlt::utils::payload_from_args;

fn msg(args: &[(u32, &[u8])], noar: u8) -> DltMessage {
    let a: Vec<DltArg> = args.iter().map(|a| DltArg { type_info: a.0, is_big_endian: false, payload_raw: a.1 }).collect();
    DltMessage::get_testmsg_with_payload(false, noar, &payload_from_args(&a))
}
fn flda(nr: i32, data: &[u8]) -> DltMessage {
    msg(&[(DLT_TYPE_INFO_STRG, b"FLDA\0"), (DLT_TYPE_INFO_UINT | DLT_TYLE_32BIT as u32, &17u32.to_le_bytes()),
          (DLT_TYPE_INFO_SINT | DLT_TYLE_32BIT as u32, &nr.to_le_bytes()), (DLT_TYPE_INFO_RAWD, data), (DLT_TYPE_INFO_STRG, b"FLDA\0")], 5)
}

fn run(order: &[i32]) -> String {
    let cfg = serde_json::json!({"name": "f", "apid":"APID", "ctid":"CTID", "allowSave":true, "keepFLDA":false});
    let mut p = FileTransferPlugin::from_json(cfg.as_object().unwrap()).unwrap();
    let u32t = DLT_TYPE_INFO_UINT | DLT_TYLE_32BIT as u32;
    let mut flst = msg(&[(DLT_TYPE_INFO_STRG, b"FLST\0"), (u32t, &17u32.to_le_bytes()), (DLT_TYPE_INFO_STRG, b"f.bin\0"),
        (u32t, &3u32.to_le_bytes()), (DLT_TYPE_INFO_STRG, b"2022-06-02 21:54:00\0"), (u32t, &3u32.to_le_bytes()),
        (u32t, &1u32.to_le_bytes()), (DLT_TYPE_INFO_STRG, b"FLST\0")], 8);
    p.process_msg(&mut flst);
    let data = [7u8, 8, 9];
    for nr in order {
        p.process_msg(&mut flda(*nr, &data[(*nr as usize - 1)..(*nr as usize)]));
    }
    let st = p.state();
    let s = st.read().unwrap();
    s.value.to_string()
}

#[test]
fn in_order_transfer_completes() {
    let s = run(&[1, 2, 3]);
    assert!(s.contains("'f.bin', 0kb") && !s.contains("Incomplete"), "{s}");
}

#[test]
fn f5_duplicate_of_a_non_last_package_is_tolerated() {
    let s = run(&[1, 1, 2, 3]);
    assert!(s.contains("'f.bin', 0kb") && !s.contains("Incomplete"), "packages 1,1,2,3 of 3: {s}");
}
