// Finding F10 (C20/C03): seek(Current(i64::MIN)) / seek(End(i64::MIN)) negated the offset (`-offset`),
// which overflows: panic "attempt to negate with overflow" in builds with overflow checks.
use adlt::utils::seekablechain::SeekableChain;
use std::io::{Cursor, Seek, SeekFrom};

#[test]
fn f10_seek_current_i64_min_does_not_panic() {
    let mut chain = SeekableChain::new(vec![Cursor::new(b"ab".to_vec()), Cursor::new(b"cde".to_vec())]);
    chain.seek(SeekFrom::Start(3)).unwrap();
    let r = chain.seek(SeekFrom::Current(i64::MIN));
    assert!(matches!(r, Ok(0) | Err(_)), "{r:?}");
}

#[test]
fn f10_seek_end_i64_min_does_not_panic() {
    let mut chain = SeekableChain::new(vec![Cursor::new(b"ab".to_vec()), Cursor::new(b"cde".to_vec())]);
    let r = chain.seek(SeekFrom::End(i64::MIN));
    assert!(matches!(r, Ok(0) | Err(_)), "{r:?}");
}
