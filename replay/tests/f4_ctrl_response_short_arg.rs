// Finding F4 (C03): Lifecycle::update panicked (Option::unwrap on None) on a *verbose* control response whose first
// argument is shorter than 4 bytes (it assumed the non-verbose layout: 4-byte service id first).
use adlt::dlt::{DltChar4, DltExtendedHeader, DltMessage, DltStandardHeader};
use adlt::lifecycle::Lifecycle;

fn msg(vmm: u8, payload: &[u8], reception_us: u64, timestamp_dms: u32) -> DltMessage {
    DltMessage {
        index: 0,
        reception_time_us: reception_us,
        ecu: DltChar4::from_buf(b"ECU1"),
        timestamp_dms,
        standard_header: DltStandardHeader { htyp: 0x31, mcnt: 0, len: 0 },
        extended_header: Some(DltExtendedHeader { verb_mstp_mtin: vmm, noar: 1, apid: DltChar4::from_buf(b"APID"), ctid: DltChar4::from_buf(b"CTID") }),
        payload: payload.to_vec(),
        payload_text: None,
        lifecycle: 0,
    }
}

#[test]
fn f4_verbose_control_response_with_one_byte_argument() {
    let mut first = msg(0x41, &[], 10_000_000, 10_000);
    let mut lc = Lifecycle::new(&mut first);
    // verbose (bit 0), type control (3 << 1), response (2 << 4); one 8-bit unsigned argument
    let mut m = msg(0x27, &[0x41, 0, 0, 0, 5], 10_100_000, 11_000);
    let r = lc.update(&mut m, 60_000_000);
    assert!(r.is_none());
    assert_eq!(m.lifecycle, lc.id());
}
