// Finding F9 (C20): seek(End(+k)) returned the length but left the position where it was,
// so the next read returned data where a single file is at (beyond) its end.
use adlt::utils::seekablechain::SeekableChain;
use std::io::{Cursor, Read, Seek, SeekFrom};

#[test]
fn f9_seek_beyond_end_then_read_is_eof() {
    let mut chain = SeekableChain::new(vec![Cursor::new(b"ab".to_vec()), Cursor::new(b"cde".to_vec())]);
    let mut file = Cursor::new(b"abcde".to_vec());
    chain.seek(SeekFrom::Start(3)).unwrap();
    file.seek(SeekFrom::Start(3)).unwrap();
    chain.seek(SeekFrom::End(3)).unwrap();
    file.seek(SeekFrom::End(3)).unwrap();
    let mut b1 = [0u8; 4];
    let mut b2 = [0u8; 4];
    let n1 = chain.read(&mut b1).unwrap();
    let n2 = file.read(&mut b2).unwrap();
    assert_eq!(n1, n2, "after seek(End(3)) the chain read {n1} bytes, a single file {n2}");
}
