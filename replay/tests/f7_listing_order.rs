// Finding F7 (C07, obligation cmp.trans; fixed in /repo): the comparator of get_sorted_lifecycles_as_vec was not a total order
// when a resumed lifecycle's start estimate lies before the start of the lifecycle it resumes and a third lifecycle starts in
// between: a resumed lifecycle could be listed before its origin. Built through the public API (Lifecycle::new / update).
// Known finding F7b (obligation cmp.resumed_strict, still open): a chain of two resumes whose start estimates both cross.
// Run the latter with: cargo test --offline --test f7_listing_order -- --ignored
use adlt::dlt::{DltChar4, DltExtendedHeader, DltMessage, DltStandardHeader};
use adlt::lifecycle::{get_sorted_lifecycles_as_vec, Lifecycle};

fn msg(ecu: &[u8; 4], reception_us: u64, timestamp_us: u64) -> DltMessage {
    DltMessage {
        index: 0, reception_time_us: reception_us, ecu: DltChar4::from_buf(ecu), timestamp_dms: (timestamp_us / 100) as u32,
        standard_header: DltStandardHeader { htyp: 0x31, mcnt: 0, len: 0 },
        extended_header: Some(DltExtendedHeader { verb_mstp_mtin: 0x41, noar: 0, apid: DltChar4::from_buf(b"APID"), ctid: DltChar4::from_buf(b"CTID") }),
        payload: vec![], payload_text: None, lifecycle: 0,
    }
}
const S: u64 = 1_000_000;

// one origin lifecycle a (start 1000 s + k), a resume c of it whose start estimate is moved before a's, and b in between
fn triple(k: u64) -> Vec<Lifecycle> {
    let base = (1000 + 100 * k) * S;
    let mut a = Lifecycle::new(&mut msg(b"ECU1", base + 50 * S, 50 * S)); // start = base
    // resume: reception gap >= 10 s, timestamp >= max, start shift >= 10 s
    let mut c = a.update(&mut msg(b"ECU1", base + 100 * S, 60 * S), 60 * S).expect("resume lifecycle"); // start = base + 40 s
    assert!(c.is_resume());
    // a message of c with a much smaller transport delay moves c's start estimate to base - 20 s (before a's start)
    assert!(c.update(&mut msg(b"ECU1", base + 101 * S, 121 * S), 3600 * S).is_none());
    assert!(c.start_time < a.start_time, "c.start {} a.start {}", c.start_time, a.start_time);
    let b = Lifecycle::new(&mut msg(b"ECU2", base + 30 * S, 40 * S)); // start = base - 10 s: between c and a
    vec![a, b, c]
}

#[test]
fn f7_listing_never_places_a_resumed_lifecycle_before_its_origin() {
    let (lcs_r, mut lcs_w) = evmap::new::<u32, Lifecycle>();
    let mut all = vec![];
    for k in 0..12 { all.extend(triple(k)); }
    for lc in &all { lcs_w.insert(lc.id(), lc.clone()); }
    lcs_w.refresh();
    let r = lcs_r.read().unwrap();
    let sorted = get_sorted_lifecycles_as_vec(&r); // may panic: "user-provided comparison function does not correctly implement a total order"
    assert_eq!(sorted.len(), all.len());
    for (i, lc) in sorted.iter().enumerate() {
        if lc.is_resume() {
            // its origin is the lifecycle created right before it (same triple): must come earlier in the listing
            let origin_id = lc.id() - 1;
            let pos = sorted.iter().position(|x| x.id() == origin_id).unwrap();
            assert!(pos < i, "resumed lifecycle {} listed at {} before its origin {} at {}", lc.id(), i, origin_id, pos);
        }
    }
}

#[test]
#[ignore]
fn kf_chain_of_two_crossing_resumes() {
    let base = 100_000 * S;
    let mut o = Lifecycle::new(&mut msg(b"ECU1", base + 50 * S, 50 * S)); // start = base
    let mut a = o.update(&mut msg(b"ECU1", base + 100 * S, 60 * S), 60 * S).expect("resume a of o"); // start = base + 40 s
    assert!(a.update(&mut msg(b"ECU1", base + 101 * S, 121 * S), 3600 * S).is_none()); // a.start = base - 20 s (crosses o)
    assert!(a.is_resume() && a.start_time < o.start_time);
    // c resumes a
    let mut c = a.update(&mut msg(b"ECU1", base + 200 * S, 130 * S), 60 * S).expect("resume c of a"); // start = base + 70 s
    assert!(c.is_resume());
    assert!(c.update(&mut msg(b"ECU1", base + 201 * S, 211 * S), 3600 * S).is_none()); // c.start = base - 10 s
    assert!(c.start_time < o.start_time && c.start_time > a.start_time);
    let (lcs_r, mut lcs_w) = evmap::new::<u32, Lifecycle>();
    for lc in [&o, &a, &c] { lcs_w.insert(lc.id(), (*lc).clone()); }
    lcs_w.refresh();
    let r = lcs_r.read().unwrap();
    let sorted = get_sorted_lifecycles_as_vec(&r);
    let pos = |id: u32| sorted.iter().position(|x| x.id() == id).unwrap();
    assert!(pos(o.id()) < pos(a.id()), "a (resume of o) listed before o");
    assert!(pos(a.id()) < pos(c.id()), "c (resume of a) listed at {} before a at {}", pos(c.id()), pos(a.id()));
}
