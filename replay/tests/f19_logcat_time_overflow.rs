// Finding F19 (C03, obligation parse_time_str.overflow@src/utils/logcat2dltmsgiterator.rs of unit logcattime): a logcat line in
// monotonic format whose seconds value is large (the regex takes any number of digits) made parse_time_str multiply it by
// 1_000_000 without a check: "attempt to multiply with overflow" panics the converter (debug build; silently wraps in release).
use adlt::utils::LogCat2DltMsgIterator;

fn run(line: &str) -> usize {
    let data = format!("{}\n", line);
    let it = LogCat2DltMsgIterator::new(0, std::io::Cursor::new(data.into_bytes()), 0, None, Some(1_600_000_000_000_000), None);
    it.count()
}

#[test]
fn ordinary_monotonic_line_is_converted() {
    assert!(run("  19.002   508   521 I tag : text") >= 1);
}

#[test]
fn f19_huge_seconds_value_does_not_panic() {
    // 18446744073710 * 1_000_000 > u64::MAX
    let _ = run("  18446744073710.002   508   521 I tag : text");
    // the sum of the two parts, too
    let _ = run("  18446744073709.999999   508   521 I tag : text");
    let _ = run("  99999999999999999999999999.5   508   521 I tag : text");
}
