// Finding F17 (C15): `stream_search <id>` without a parameter string: the dispatcher took `params.split_once(' ').unwrap().1` and
// panicked; the connection was lost instead of an `err:` reply. End to end on the real `adlt remote` binary.
include!("f12_stream_search.rs_common");

#[test]
fn f17_stream_search_without_parameters_is_answered() {
    let (_server, mut ws) = opened();
    let id = open_stream(&mut ws, "");
    ws.write_message(Message::Text(format!("stream_search {}", id))).unwrap();
    let mut reply = None;
    for _ in 0..200 {
        match ws.read_message() {
            Ok(Message::Text(s)) => { if s.starts_with("ok: stream_search") || s.starts_with("err: stream_search") { reply = Some(s); break; } }
            Ok(_) => {}
            Err(e) => { reply = Some(format!("connection lost: {e}")); break; }
        }
    }
    let reply = reply.expect("no reply");
    assert!(reply.starts_with("ok:") || reply.starts_with("err:"), "reply to `stream_search {id}`: {reply}");
    // and the server is still there
    let r = cmd(&mut ws, "close", "ok:");
    assert!(r.starts_with("ok:"), "{r}");
}
