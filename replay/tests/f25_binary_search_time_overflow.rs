// Finding F25 (C15/C03): `stream_binary_search <id> time_ms=<n>` computed `1000u64 * n` with the plain `*`: for n > u64::MAX / 1000
// the multiplication overflows - a panic of the connection thread in a build with overflow checks (the connection is lost instead
// of a reply), a wrapped (wrong) time in a build without. End to end on the real `adlt remote` binary.
include!("f12_stream_search.rs_common");

#[test]
fn f25_stream_binary_search_with_huge_time_is_answered() {
    let (_server, mut ws) = opened();
    let id = open_stream(&mut ws, "");
    ws.write_message(Message::Text(format!("stream_binary_search {} time_ms=18446744073709551615", id))).unwrap();
    let mut reply = None;
    for _ in 0..200 {
        match ws.read_message() {
            Ok(Message::Text(s)) => { if s.starts_with("ok: stream_binary_search") || s.starts_with("err: stream_binary_search") { reply = Some(s); break; } }
            Ok(_) => {}
            Err(e) => { reply = Some(format!("connection lost: {e}")); break; }
        }
    }
    let reply = reply.expect("no reply");
    assert!(reply.starts_with("ok:") || reply.starts_with("err:"), "reply to `stream_binary_search {id} time_ms=u64::MAX`: {reply}");
    // and the server is still there
    let r = cmd(&mut ws, "close", "ok:");
    assert!(r.starts_with("ok:"), "{r}");
}
