// Finding F35 (C03): a logcat line whose time stamp is followed by a multi-byte white-space character (`\s` of the regex is
// Unicode-aware: U+00A0, U+2003, U+3000, ..): the text of the message is cut out with `cap_str[loc_timestamp.1 + 1..]` - one byte
// after the end of the time-stamp capture, which is inside that character: 'byte index .. is not a char boundary'.
use adlt::utils::{get_new_namespace, LogCat2DltMsgIterator};
use std::io::Cursor;

fn count(text: &str) -> usize {
    let rdr = std::io::BufReader::new(Cursor::new(text.as_bytes().to_vec()));
    LogCat2DltMsgIterator::new(0, rdr, get_new_namespace(), None, Some(1_717_200_000_000_000), None).count()
}

#[test]
fn f35_monotonic_line_nbsp_after_timestamp() {
    assert!(count("1.500000\u{a0}123 456 I tag: msg\n") >= 1);
}

#[test]
fn f35_threadtime_line_wide_space_after_timestamp() {
    assert!(count("01-02 03:04:05.678\u{3000}123 456 I tag: msg\n") >= 1);
}
