// Finding F26 (C15): `stream_search <id> {"max_results":<n>}` pre-allocated `Vec::with_capacity(n)` for the result positions with the
// client's number: n = u64::MAX panics with "capacity overflow" (the connection is reset instead of a reply), a merely huge n asks the
// allocator for memory unrelated to the number of messages (an allocation failure aborts the whole server). End to end on the real
// `adlt remote` binary.
include!("f12_stream_search.rs_common");

#[test]
fn f26_stream_search_with_huge_max_results_is_answered() {
    let (_server, mut ws) = opened();
    let id = open_stream(&mut ws, "");
    ws.write_message(Message::Text(format!(r#"stream_search {} {{"filters":[{{"type":0,"apid":"A008"}}],"max_results":18446744073709551615}}"#, id))).unwrap();
    let mut reply = None;
    for _ in 0..200 {
        match ws.read_message() {
            Ok(Message::Text(s)) => { if s.starts_with("ok: stream_search") || s.starts_with("err: stream_search") { reply = Some(s); break; } }
            Ok(_) => {}
            Err(e) => { reply = Some(format!("connection lost: {e}")); break; }
        }
    }
    let reply = reply.expect("no reply");
    assert!(reply.starts_with("ok:") || reply.starts_with("err:"), "reply to `stream_search {id} max_results=u64::MAX`: {reply}");
    let r = cmd(&mut ws, "close", "ok:");
    assert!(r.starts_with("ok:"), "{r}");
}
