// Finding F8 (C20): an empty volume in the middle of a chain made read() return Ok(0) before the end of data.
use adlt::utils::seekablechain::SeekableChain;
use std::io::{Cursor, Read};

#[test]
fn f8_empty_volume_in_the_middle_is_not_eof() {
    let vols = vec![Cursor::new(b"ab".to_vec()), Cursor::new(Vec::new()), Cursor::new(b"cd".to_vec())];
    let mut chain = SeekableChain::new(vols);
    let mut file = Cursor::new(b"abcd".to_vec());
    let mut b1 = [0u8; 2];
    let mut b2 = [0u8; 2];
    for step in 0..4 {
        let n1 = chain.read(&mut b1).unwrap();
        let n2 = file.read(&mut b2).unwrap();
        // a single file never returns 0 before its end (for a non-empty buffer)
        assert_eq!(n1 == 0, n2 == 0, "step {step}: chain returned {n1}, single file returned {n2}");
        assert_eq!(&b1[..n1], &b2[..n1]);
    }
}
