// sanity of the oracle comparisons in /verif/kani/src/logic.rs on the real crate (pseudo-random inputs; not a verdict)
use adlt_verif_kani::logic;

fn rng(seed: &mut u64) -> u8 {
    *seed ^= *seed << 13; *seed ^= *seed >> 7; *seed ^= *seed << 17;
    (*seed >> 24) as u8
}

#[test]
fn logic_functions_hold_on_the_unchanged_tree() {
    let mut s = 0x9e3779b97f4a7c15u64;
    for _ in 0..20000 {
        let mut a = [0u8; 8]; for x in a.iter_mut() { *x = rng(&mut s); }
        assert_eq!(logic::c20_chain_ops(&a), Ok(()), "c20 {a:?}");
        let mut b = [0u8; 10]; for x in b.iter_mut() { *x = rng(&mut s); }
        assert_eq!(logic::c09_merge(&b), Ok(()), "c09 {b:?}");
        let mut d = [0u8; 7]; for x in d.iter_mut() { *x = rng(&mut s); }
        assert_eq!(logic::c09_sort2(&d), Ok(()), "c09_sort2 {d:?}");
        let mut e = [0u8; 4]; for x in e.iter_mut() { *x = rng(&mut s); }
        assert_eq!(logic::c09_three_sources(&e), Ok(()), "c09_three {e:?}");
        let mut f = [0u8; 24]; for x in f.iter_mut() { *x = rng(&mut s); }
        // bias the length field and flags towards parseable messages
        f[14] = 0; f[15] = f[15] % 14; f[12] &= 0x3f;
        assert_eq!(logic::c01_parse_storage(&f), Ok(()), "c01 {f:?}");
        let mut g = [0u8; 12]; for x in g.iter_mut() { *x = rng(&mut s); }
        assert_eq!(logic::c03_log_info(&g), Ok(()), "c03 {g:?}");
        let mut h = [0u8; 3]; for x in h.iter_mut() { *x = rng(&mut s); }
        assert_eq!(logic::c12_match_filters(&h), Ok(()), "c12 {h:?}");
        let mut c = [0u8; 3]; for x in c.iter_mut() { *x = rng(&mut s); }
        assert_eq!(logic::c18_ser_str(&c), Ok(()), "c18 {c:?}");
    }
}
