// Finding F6 (C03): a file-transfer announcement (FLST) with huge nr_packages / buffer_size made the plugin call
// Vec::with_capacity(nr_packages * buffer_size): "capacity overflow" panic (or a multiplication overflow for 64-bit values).
use adlt::dlt::{DltArg, DltMessage, DLT_TYLE_32BIT, DLT_TYPE_INFO_STRG, DLT_TYPE_INFO_UINT};
use adlt::plugins::file_transfer::FileTransferPlugin;
use adlt::plugins::plugin::Plugin;
use adlt::utils::payload_from_args;

#[test]
fn f6_flst_with_huge_sizes_does_not_panic() {
    let cfg = serde_json::json!({"name": "f", "apid":"APID", "ctid":"CTID", "allowSave":true, "keepFLDA":false});
    let mut p = FileTransferPlugin::from_json(cfg.as_object().unwrap()).unwrap();
    let u32t = DLT_TYPE_INFO_UINT | DLT_TYLE_32BIT as u32;
    let max = u32::MAX.to_le_bytes();
    let args: Vec<(u32, &[u8])> = vec![(DLT_TYPE_INFO_STRG, b"FLST\0"), (u32t, &[17, 0, 0, 0]), (DLT_TYPE_INFO_STRG, b"f.bin\0"),
        (u32t, &max), (DLT_TYPE_INFO_STRG, b"2022-06-02 21:54:00\0"), (u32t, &max), (u32t, &max), (DLT_TYPE_INFO_STRG, b"FLST\0")];
    let a: Vec<DltArg> = args.iter().map(|a| DltArg { type_info: a.0, is_big_endian: false, payload_raw: a.1 }).collect();
    let mut flst = DltMessage::get_testmsg_with_payload(false, 8, &payload_from_args(&a));
    assert!(p.process_msg(&mut flst));
}
