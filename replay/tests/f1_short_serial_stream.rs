// Finding F1 (C01): a serial-framed stream shorter than 20 bytes yielded no message at all, because the iterator
// tries the storage framing first while nothing is latched and gave up when that parser reported NotEnoughData.
use adlt::utils::DltMessageIterator;

#[test]
fn f1_single_short_serial_message_is_found() {
    // DLS\x01 + standard header (htyp=0x21: version 1, ext header absent... use 0x20), mcnt=7, len=8, 4 payload bytes
    let data: Vec<u8> = vec![0x44, 0x4c, 0x53, 0x01, 0x20, 0x07, 0x00, 0x08, 0xde, 0xad, 0xbe, 0xef];
    let mut it = DltMessageIterator::new(0, std::io::Cursor::new(data));
    let msgs: Vec<_> = (&mut it).collect();
    assert_eq!(msgs.len(), 1, "a 12 byte serial stream with one well-formed message yielded {} messages", msgs.len());
    assert_eq!(msgs[0].payload, vec![0xde, 0xad, 0xbe, 0xef]);
    assert_eq!(it.bytes_processed, 12);
    assert_eq!(it.bytes_skipped, 0);
}
