// Finding F37 (C15): `open` with a plugin configuration whose number is out of range - the Export plugin's `recordedTimeFromMs` /
// `recordedTimeToMs` are multiplied by 1000 with the plain `*` on u64: 18446744073709551615 panics the connection thread ('attempt to
// multiply with overflow') - the connection is reset instead of the command being answered. End to end on the real `adlt remote` binary,
// and on ExportPlugin::from_json directly.
include!("f12_stream_search.rs_common");

#[test]
fn f37_export_plugin_config_with_huge_time_is_answered() {
    let (_server, mut ws) = start();
    let c = format!(r#"open {{"files":[{}],"plugins":[{{"name":"Export","exportFileName":"/nonexistent_dir/x.dlt","filters":[],"recordedTimeFromMs":18446744073709551615}}]}}"#, serde_json::json!(FILE));
    ws.write_message(Message::Text(c)).unwrap();
    let mut reply = None;
    for _ in 0..200 {
        match ws.read_message() {
            Ok(Message::Text(s)) => { if s.starts_with("ok: open") || s.starts_with("err: open") { reply = Some(s); break; } }
            Ok(_) => {}
            Err(e) => { reply = Some(format!("connection lost: {e}")); break; }
        }
    }
    let reply = reply.expect("no reply");
    assert!(reply.starts_with("ok:") || reply.starts_with("err:"), "reply to `open` with Export plugin recordedTimeFromMs=u64::MAX: {reply}");
}

#[test]
fn f37_export_plugin_from_json_does_not_panic() {
    let cfg = serde_json::json!({"name":"Export","exportFileName":"/nonexistent_dir/x.dlt","filters":[],"recordedTimeToMs":18446744073709551615u64});
    let r = std::panic::catch_unwind(|| adlt::plugins::export::ExportPlugin::from_json(cfg.as_object().unwrap()).is_ok());
    assert!(r.is_ok(), "ExportPlugin::from_json panicked");
}
