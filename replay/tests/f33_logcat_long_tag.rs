// Finding F33 (C03): a logcat line with a tag of about 65 500 bytes: the control message that announces the tag's APID gets the
// standard-header length `len_wo_payload + (payload.len() as u16)` computed with the plain `+` on u16: an arithmetic overflow.
use adlt::utils::{get_new_namespace, LogCat2DltMsgIterator};
use std::io::Cursor;

#[test]
fn f33_tag_of_65505_bytes() {
    let tag = "a".repeat(65505);
    let text = format!("01-02 03:04:05.678  123  456 I {}: msg\n", tag);
    let rdr = std::io::BufReader::new(Cursor::new(text.into_bytes()));
    let it = LogCat2DltMsgIterator::new(0, rdr, get_new_namespace(), None, Some(1_717_200_000_000_000), None);
    let n = it.count();
    assert!(n >= 1);
}
