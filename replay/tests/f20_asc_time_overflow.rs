// Finding F20 (C03, obligation parse_signed_time_str.overflow@src/utils/asc2dltmsgiterator.rs of unit logcattime): a CAN .asc line
// whose time stamp has a huge seconds value (the regex takes any number of digits before the 6 fraction digits) made
// parse_signed_time_str multiply it by 1_000_000 without a check: "attempt to multiply with overflow" (debug build).
use adlt::utils::Asc2DltMsgIterator;

fn run(text: &str) -> usize {
    let it = Asc2DltMsgIterator::new(0, std::io::Cursor::new(text.as_bytes().to_vec()), 0, None, None);
    it.count()
}

#[test]
fn ordinary_can_line_is_converted() {
    assert!(run("date Tue Apr 12 08:55:37.985 am 2022\n   0.004986 1  123             Rx   d 8 01 02 03 04 05 06 07 08\n") >= 1);
}

#[test]
fn f20_huge_seconds_value_does_not_panic() {
    let _ = run("date Tue Apr 12 08:55:37.985 am 2022\n   9223372036855.000000 1  123             Rx   d 8 01 02 03 04 05 06 07 08\n");
    let _ = run("date Tue Apr 12 08:55:37.985 am 2022\n   -9223372036854.999999 1  123             Rx   d 8 01 02 03 04 05 06 07 08\n");
    let _ = run("date Tue Apr 12 08:55:37.985 am 2022\n   9223372036854.999999 1  123             Rx   d 8 01 02 03 04 05 06 07 08\n");
}
