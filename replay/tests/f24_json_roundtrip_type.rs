// Finding F24 (C11, obligation json.roundtrip of unit filterjson): Filter::to_json (Serialize for Filter) does not write the message
// type criterion (`verb_mstp_mtin`): a filter with a type criterion, serialised to JSON and loaded again, has lost it and decides
// differently.
use adlt::dlt::{DltChar4, DltExtendedHeader, DltMessage, DltStandardHeader};
use adlt::filter::Filter;

fn msg(verb_mstp_mtin: u8) -> DltMessage {
    DltMessage {
        index: 0, reception_time_us: 0, ecu: DltChar4::from_buf(b"ECU1"), timestamp_dms: 0,
        standard_header: DltStandardHeader { htyp: 0x21, mcnt: 0, len: 0 },
        extended_header: Some(DltExtendedHeader { verb_mstp_mtin, noar: 0, apid: DltChar4::from_buf(b"APID"), ctid: DltChar4::from_buf(b"CTID") }),
        payload: vec![], payload_text: None, lifecycle: 0,
    }
}

#[test]
fn f24_a_filter_serialised_to_json_and_loaded_again_decides_identically() {
    for src in [r#"{"type":0,"mstp":3}"#, r#"{"type":0,"verb_mstp_mtin":65}"#, r#"{"type":1,"verb_mstp_mtin":6,"ecu":"ECU1"}"#] {
        let f = Filter::from_json(src).unwrap();
        let json = f.to_json();
        let f2 = Filter::from_json(&json).unwrap();
        for vmm in 0..=255u8 {
            let m = msg(vmm);
            assert_eq!(f.matches(&m), f2.matches(&m), "filter {} -> {}: type byte {:#04x}: original says {}, reloaded says {}", src, json, vmm, f.matches(&m), f2.matches(&m));
        }
    }
}
