// Finding F11 (C04, obligation fill.inv.wf / seek.bytes): when fill_buf compacts the buffer it moves the unread bytes to a
// cache-line aligned `offset` and moves abs_pos to "start of buffer", but leaves the first `offset` bytes of the buffer as they
// were. seek(Start(n)) accepts every n in [abs_pos, abs_pos + cap], so a short backward seek after a compaction succeeded and the
// following read handed out stale bytes that are not the source's bytes at position n.
use adlt::utils::LowMarkBufReader;
use std::io::{BufRead, Cursor, Read, Seek, SeekFrom};

fn src(n: usize) -> Vec<u8> { (0..n).map(|i| (i % 251) as u8).collect() }

#[test]
fn f11_backward_seek_after_compaction_hands_out_source_bytes() {
    let data = src(64 * 1024);
    // capacity 8192, low mark 4096
    let mut r = LowMarkBufReader::new(Cursor::new(data.clone()), 8192, 4096);
    r.fill_buf().unwrap();
    // consume 4097 + 100 bytes: pos >= 4096 and fewer than low_mark bytes left -> next fill_buf compacts with offset != 0
    r.consume(4097 + 100);
    r.fill_buf().unwrap();
    let p = r.stream_position().unwrap();
    assert_eq!(p, 4197);
    // every backward seek that the reader accepts must deliver the source's bytes from there
    for back in 1..=200u64 {
        let mut rr = LowMarkBufReader::new(Cursor::new(data.clone()), 8192, 4096);
        rr.fill_buf().unwrap();
        rr.consume(4097 + 100);
        rr.fill_buf().unwrap();
        if let Ok(n) = rr.seek(SeekFrom::Start(p - back)) {
            assert_eq!(n, p - back);
            let mut b = [0u8; 16];
            rr.read_exact(&mut b).unwrap();
            assert_eq!(&b[..], &data[n as usize..n as usize + 16], "bytes handed out after seek(Start({})) (stream position was {})", n, p);
        }
    }
}
